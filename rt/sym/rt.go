// Package verifrt declares the nondeterminism / assertion interface between
// harnesses and the symbolic engine. This variant (bodies absent) is the one
// loaded by gosym; the engine implements every function as an intrinsic.
package verifrt

func U8() uint8
func U16() uint16
func U32() uint32
func U64() uint64
func I32() int32
func I64() int64
func Int() int
func Bool() bool
func Bytes(n int) []byte
func String(n int) string
func IntRange(lo, hi int) int
func Choose(n int) int
func Assume(c bool)
func Assert(c bool, label string)
func Fail(label string)
func Reach(label string)
func Event(s string)
func Param(name string, def int) int
func Native() bool
func Steps() int
func MapOrderNondet(on bool)
func Concrete(x int) int
func ConcreteBool(b bool) bool
func ConcreteBytes(b []byte) []byte
func IsSymbolic(x int) bool
func Replace(name string, fn any)
func Stop()
func Ite(c bool, x, y int) int
func And(a, b bool) bool
func Or(a, b bool) bool
func Implies(a, b bool) bool
func BytesEq(a, b []byte) bool
func StrEq(a, b string) bool
func PanicValueString(v any) string

// Catch runs f and reports whether it panicked (plain Go; interpreted).
func Catch(f func()) (panicked bool, val any) {
	defer func() {
		if r := recover(); r != nil {
			panicked = true
			val = r
		}
	}()
	f()
	return false, nil
}

// TraceShared makes the engine log every read/write of the heap cells reachable
// from x (struct fields, nested structs, maps as a whole, and structs later
// stored in those maps) under the given name, plus Mutex/Once events on them.
func TraceShared(x any, name string)

// TraceTake returns the logged events ("R cell", "W cell", "L cell", "U cell",
// "ONCE-..." ) and stops tracing.
func TraceTake() []string

// TraceSharedDeep is TraceShared plus escape tracking: every object that becomes
// reachable from the traced node (through a store into a traced cell or map) is
// traced too, under a name unique to the object.
func TraceSharedDeep(x any, name string)

// TraceMark appends the event "M <s>" to the trace (thread boundary).
func TraceMark(s string)
