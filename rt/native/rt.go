// Package verifrt, native variant: the same interface as the symbolic
// declarations, implemented by feeding recorded values (a solver model written
// by gosym) to the harness so that it runs against the natively compiled code.
package verifrt

import (
	"encoding/json"
	"fmt"
	"os"
	"strconv"
	"strings"
)

type rec struct {
	Kind string `json:"kind"`
	W    int    `json:"w"`
	C    uint64 `json:"c"`
	N    int    `json:"n"`
}

type replayFile struct {
	Harness string         `json:"harness"`
	Params  map[string]int `json:"params"`
	Nondet  []rec          `json:"nondet"`
}

type stopT struct{ why string }

var (
	cur      replayFile
	pos      int
	events   []string
	reach    []string
	result   string
	mismatch string
)

func next(kind string) uint64 {
	if pos >= len(cur.Nondet) {
		if mismatch == "" {
			mismatch = "nondet-exhausted at " + kind
		}
		panic(stopT{"nondet-exhausted"})
	}
	r := cur.Nondet[pos]
	pos++
	if r.Kind != kind && !(kind == "i64" && r.Kind == "u64") && !(kind == "u64" && r.Kind == "i64") {
		if mismatch == "" {
			mismatch = fmt.Sprintf("nondet kind mismatch at %d: want %s have %s", pos-1, kind, r.Kind)
		}
		panic(stopT{"nondet-mismatch"})
	}
	return r.C
}

func U8() uint8   { return uint8(next("u8")) }
func U16() uint16 { return uint16(next("u16")) }
func U32() uint32 { return uint32(next("u32")) }
func U64() uint64 { return next("u64") }
func I32() int32  { return int32(uint32(next("i32"))) }
func I64() int64  { return int64(next("i64")) }
func Int() int    { return int(int64(next("i64"))) }
func Bool() bool  { return next("bool") != 0 }
func Bytes(n int) []byte {
	b := make([]byte, n)
	for i := range b {
		b[i] = U8()
	}
	return b
}
func String(n int) string { return string(Bytes(n)) }
func IntRange(lo, hi int) int {
	v := int(int64(next("i64")))
	if v < lo || v > hi {
		mismatch = fmt.Sprintf("IntRange value %d outside [%d,%d]", v, lo, hi)
		panic(stopT{"assume-false"})
	}
	return v
}
func Choose(n int) int {
	v := int(next("choose"))
	if v < 0 || v >= n {
		if n <= 1 && v == 0 {
			return 0
		}
		mismatch = fmt.Sprintf("Choose value %d outside [0,%d)", v, n)
		panic(stopT{"nondet-mismatch"})
	}
	return v
}
func Assume(c bool) {
	if !c {
		panic(stopT{"assume-false"})
	}
}
func Assert(c bool, label string) {
	if !c {
		result = "assert-fail label=" + label
		panic(stopT{"assert-fail"})
	}
}
func Fail(label string)             { Assert(false, label) }
func Reach(label string)            { reach = append(reach, label) }
func Event(s string)                { events = append(events, s) }
func Native() bool                  { return true }
func Steps() int                    { return 0 }
func MapOrderNondet(bool)           {}
func Concrete(x int) int            { return x }
func ConcreteBool(b bool) bool      { return b }
func ConcreteBytes(b []byte) []byte { return append([]byte{}, b...) }
func IsSymbolic(int) bool           { return false }
func Replace(name string, fn any) {
	mismatch = "verifrt.Replace(" + name + ") cannot be honoured natively"
	panic(stopT{"replace-unsupported"})
}
func Stop() { panic(stopT{"stop"}) }
func Ite(c bool, x, y int) int {
	if c {
		return x
	}
	return y
}
func And(a, b bool) bool            { return a && b }
func Or(a, b bool) bool             { return a || b }
func Implies(a, b bool) bool        { return !a || b }
func BytesEq(a, b []byte) bool      { return string(a) == string(b) }
func StrEq(a, b string) bool        { return a == b }
func PanicValueString(v any) string { return fmt.Sprint(v) }
func Param(name string, def int) int {
	if v, ok := cur.Params[name]; ok {
		return v
	}
	return def
}

func Catch(f func()) (panicked bool, val any) {
	defer func() {
		if r := recover(); r != nil {
			if _, ok := r.(stopT); ok {
				panic(r)
			}
			panicked = true
			val = r
		}
	}()
	f()
	return false, nil
}

// RunNative runs the harness once per replay file named in $VERIF_REPLAY
// (colon separated) and prints one machine-readable block per run.
func RunNative(harnesses map[string]func()) {
	files := strings.Split(os.Getenv("VERIF_REPLAY"), ":")
	for _, f := range files {
		if f == "" {
			continue
		}
		// VERIF_REPLAY_REPEAT=n: counterexamples that depend on Go's randomised map iteration
		// order are re-run up to n times in this process, until one run does not end "ok"
		n := 1
		if v, err := strconv.Atoi(os.Getenv("VERIF_REPLAY_REPEAT")); err == nil && v > 1 {
			n = v
		}
		for i := 0; i < n; i++ {
			quiet = i < n-1
			if runOne(f, harnesses) != "ok" {
				break
			}
		}
	}
}

var quiet bool

func runOne(path string, harnesses map[string]func()) (res string) {
	var out strings.Builder
	defer func() {
		res = result
		// a repeated run that ended "ok" is only printed if it is the last one
		if !(quiet && result == "ok") {
			fmt.Print(out.String())
		}
	}()
	fmt.Fprintf(&out, "VERIF-BEGIN %s\n", path)
	defer fmt.Fprintf(&out, "VERIF-END %s\n", path)
	data, err := os.ReadFile(path)
	if err != nil {
		fmt.Fprintf(&out, "VERIF-RESULT error %v\n", err)
		return
	}
	cur = replayFile{}
	if err := json.Unmarshal(data, &cur); err != nil {
		fmt.Fprintf(&out, "VERIF-RESULT error %v\n", err)
		return
	}
	pos, events, reach, result, mismatch = 0, nil, nil, "", ""
	h := harnesses[cur.Harness]
	if h == nil {
		fmt.Fprintf(&out, "VERIF-RESULT error unknown harness %s\n", cur.Harness)
		return
	}
	func() {
		defer func() {
			if r := recover(); r != nil {
				if s, ok := r.(stopT); ok {
					switch s.why {
					case "stop":
						result = "ok"
					case "assert-fail":
					default:
						result = "mismatch " + s.why + " " + mismatch
					}
					return
				}
				result = fmt.Sprintf("panic %v", r)
				result = strings.ReplaceAll(result, "\n", " ")
			}
		}()
		h()
		if result == "" {
			result = "ok"
		}
	}()
	for _, e := range events {
		fmt.Fprintf(&out, "VERIF-EVENT %s\n", e)
	}
	for _, e := range reach {
		fmt.Fprintf(&out, "VERIF-REACH %s\n", e)
	}
	fmt.Fprintf(&out, "VERIF-CONSUMED %d/%d\n", pos, len(cur.Nondet))
	fmt.Fprintf(&out, "VERIF-RESULT %s\n", result)
	return result
}

func TraceShared(x any, name string)     {}
func TraceTake() []string                { return nil }
func TraceSharedDeep(x any, name string) {}
func TraceMark(s string)                 {}
