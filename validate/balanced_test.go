package verifvalidate

// Native validation of the reference model refBalanced (DESIGN Appendix B) used
// as the oracle of C07/C11 against the real boxo balanced importer, and of the
// repository's builder against boxo (root CID and cumulative size).

import (
	"bytes"
	"context"
	"fmt"
	"testing"

	chunk "github.com/ipfs/boxo/chunker"
	"github.com/ipfs/boxo/ipld/merkledag"
	mdtest "github.com/ipfs/boxo/ipld/merkledag/test"
	"github.com/ipfs/boxo/ipld/unixfs/importer/balanced"
	"github.com/ipfs/boxo/ipld/unixfs/importer/helpers"
	"github.com/ipfs/go-cid"
	ipldfmt "github.com/ipfs/go-ipld-format"
	"github.com/ipfs/go-unixfsnode/data/builder"
	cidlink "github.com/ipld/go-ipld-prime/linking/cid"
	"github.com/ipld/go-ipld-prime/storage/memstore"
)

type refNode struct {
	leaf     int
	children []*refNode
}

func refT(h, lo, hi, w int) *refNode {
	if h == 0 {
		return &refNode{leaf: lo}
	}
	span := 1
	for i := 0; i < h-1; i++ {
		span *= w
	}
	n := &refNode{leaf: -1}
	for s := lo; s < hi; s += span {
		e := s + span
		if e > hi {
			e = hi
		}
		n.children = append(n.children, refT(h-1, s, e, w))
	}
	return n
}

func refBalanced(n, w int) *refNode {
	if n == 1 {
		return &refNode{leaf: 0}
	}
	d, c := 0, 1
	for c < n {
		c *= w
		d++
	}
	return refT(d, 0, n, w)
}

func boxoBuild(t *testing.T, content []byte, w int) (ipldfmt.Node, ipldfmt.DAGService) {
	ds := mdtest.Mock()
	params := helpers.DagBuilderParams{Maxlinks: w, RawLeaves: true, CidBuilder: merkledag.V1CidPrefix(), Dagserv: ds}
	db, err := params.New(chunk.NewSizeSplitter(bytes.NewReader(content), 1))
	if err != nil {
		t.Fatal(err)
	}
	nd, err := balanced.Layout(db)
	if err != nil {
		t.Fatal(err)
	}
	return nd, ds
}

func shapeOf(t *testing.T, ds ipldfmt.DAGService, nd ipldfmt.Node, next *int) string {
	if nd.Cid().Prefix().Codec == cid.Raw {
		s := fmt.Sprintf("L%d", *next)
		*next++
		return s
	}
	s := "N("
	for i, l := range nd.Links() {
		c, err := ds.Get(context.Background(), l.Cid)
		if err != nil {
			t.Fatal(err)
		}
		if i > 0 {
			s += ","
		}
		s += shapeOf(t, ds, c, next)
	}
	return s + ")"
}

func refShape(r *refNode) string {
	if r.leaf >= 0 {
		return fmt.Sprintf("L%d", r.leaf)
	}
	s := "N("
	for i, c := range r.children {
		if i > 0 {
			s += ","
		}
		s += refShape(c)
	}
	return s + ")"
}

func TestRefBalancedMatchesBoxo(t *testing.T) {
	for _, w := range []int{2, 3, 4} {
		for n := 1; n <= 40; n++ {
			content := make([]byte, n)
			for i := range content {
				content[i] = byte(i + 1)
			}
			nd, ds := boxoBuild(t, content, w)
			k := 0
			got := shapeOf(t, ds, nd, &k)
			want := refShape(refBalanced(n, w))
			if got != want {
				t.Fatalf("w=%d n=%d: boxo shape %s, refBalanced %s", w, n, got, want)
			}
		}
	}
}

// TestBuilderMatchesBoxo reports (as a test failure) every (w,n) where the
// repository's builder and boxo disagree on root CID or size.
func TestBuilderMatchesBoxo(t *testing.T) {
	old := builder.DefaultLinksPerBlock
	defer func() { builder.DefaultLinksPerBlock = old }()
	var bad []string
	for _, w := range []int{2, 3, 4} {
		builder.DefaultLinksPerBlock = w
		for n := 0; n <= 40; n++ {
			content := make([]byte, n)
			for i := range content {
				content[i] = byte(i + 1)
			}
			nd, _ := boxoBuild(t, content, w)
			bsz, _ := nd.Size()
			ls := cidlink.DefaultLinkSystem()
			st := &memstore.Store{}
			ls.SetReadStorage(st)
			ls.SetWriteStorage(st)
			lnk, sz, err := builder.BuildUnixFSFile(bytes.NewReader(content), "size-1", &ls)
			if err != nil {
				t.Fatal(err)
			}
			if lnk.(cidlink.Link).Cid != nd.Cid() || (n > 0 && sz != bsz) {
				bad = append(bad, fmt.Sprintf("w=%d,n=%d", w, n))
			}
		}
	}
	if len(bad) > 0 {
		t.Fatalf("builder differs from boxo balanced importer at: %v", bad)
	}
}
