package verifvalidate

import (
	"bytes"
	"testing"

	unixfsnode "github.com/ipfs/go-unixfsnode"
	"github.com/ipfs/go-unixfsnode/data/builder"
	dagpb "github.com/ipld/go-codec-dagpb"
	"github.com/ipld/go-ipld-prime"
	"github.com/ipld/go-ipld-prime/datamodel"
	"github.com/ipld/go-ipld-prime/linking"
	cidlink "github.com/ipld/go-ipld-prime/linking/cid"
	"github.com/ipld/go-ipld-prime/node/basicnode"
	"github.com/ipld/go-ipld-prime/storage/memstore"
	"github.com/ipld/go-ipld-prime/traversal"
	"github.com/ipld/go-ipld-prime/traversal/selector"
)

// TestKnownFindingMatchPath reproduces the C03 known finding against the real
// LinkSystem / SHA-256 / memstore: with matchPath=true the path selector matches
// only the (un-reified) root and never reaches the target. The test passes while
// the finding stands and fails (asking for known_findings.json to be revisited) when
// the behaviour changes.
func TestKnownFindingMatchPath(t *testing.T) {
	ls := cidlink.DefaultLinkSystem()
	st := &memstore.Store{}
	ls.SetReadStorage(st)
	ls.SetWriteStorage(st)
	unixfsnode.AddUnixFSReificationToLinkSystem(&ls)
	fl, fsz, err := builder.BuildUnixFSFile(bytes.NewReader([]byte("hello")), "size-2", &ls)
	if err != nil {
		t.Fatal(err)
	}
	e, _ := builder.BuildUnixFSDirectoryEntry("a", int64(fsz), fl)
	dl, dsz, err := builder.BuildUnixFSDirectory([]dagpb.PBLink{e}, &ls)
	if err != nil {
		t.Fatal(err)
	}
	e2, _ := builder.BuildUnixFSDirectoryEntry("d", int64(dsz), dl)
	rl, _, err := builder.BuildUnixFSDirectory([]dagpb.PBLink{e2}, &ls)
	if err != nil {
		t.Fatal(err)
	}
	for _, matchPath := range []bool{false, true} {
		root, err := ls.Load(ipld.LinkContext{}, rl, dagpb.Type.PBNode)
		if err != nil {
			t.Fatal(err)
		}
		sel, err := selector.CompileSelector(unixfsnode.UnixFSPathSelectorBuilder("d/a", unixfsnode.MatchUnixFSSelector, matchPath))
		if err != nil {
			t.Fatal(err)
		}
		var paths []string
		var fileBytes []byte
		prog := traversal.Progress{Cfg: &traversal.Config{LinkSystem: ls, LinkTargetNodePrototypeChooser: func(l datamodel.Link, lc linking.LinkContext) (datamodel.NodePrototype, error) {
			if l.(cidlink.Link).Cid.Prefix().Codec == 0x70 {
				return dagpb.Type.PBNode, nil
			}
			return basicnode.Prototype.Any, nil
		}}}
		err = prog.WalkMatching(root, sel, func(p traversal.Progress, n datamodel.Node) error {
			paths = append(paths, p.Path.String())
			if n.Kind() == datamodel.Kind_Bytes {
				fileBytes, _ = n.AsBytes()
			}
			return nil
		})
		if err != nil {
			t.Fatal(err)
		}
		t.Logf("matchPath=%v matched paths=%q file=%q", matchPath, paths, fileBytes)
		if !matchPath {
			if len(paths) != 1 || paths[0] != "d/a" || string(fileBytes) != "hello" {
				t.Errorf("matchPath=false: expected exactly the file at d/a, got %q %q", paths, fileBytes)
			}
			continue
		}
		// the property wants 3 matches ("", "d", "d/a") and the file's bytes
		if len(paths) == 3 && string(fileBytes) == "hello" {
			t.Errorf("the matchPath finding no longer reproduces: matched %q — update /verif/known_findings.json", paths)
		} else if len(paths) != 1 || paths[0] != "" {
			t.Errorf("matchPath=true: unexpected match set %q", paths)
		}
	}
}
