module verifvalidate

go 1.22

require (
	github.com/ipfs/boxo v0.24.0
	github.com/ipfs/go-cid v0.4.1
	github.com/ipfs/go-ipld-format v0.6.0
	github.com/ipfs/go-unixfsnode v1.9.0
	github.com/ipld/go-codec-dagpb v1.6.0
	github.com/ipld/go-ipld-prime v0.21.0
	github.com/spaolacci/murmur3 v1.1.0
)

require (
	github.com/crackcomm/go-gitignore v0.0.0-20231225121904-e25f5bc08668 // indirect
	github.com/go-logr/logr v1.4.2 // indirect
	github.com/go-logr/stdr v1.2.2 // indirect
	github.com/gogo/protobuf v1.3.2 // indirect
	github.com/google/uuid v1.6.0 // indirect
	github.com/hashicorp/golang-lru/v2 v2.0.7 // indirect
	github.com/ipfs/bbloom v0.0.4 // indirect
	github.com/ipfs/go-bitfield v1.1.0 // indirect
	github.com/ipfs/go-block-format v0.2.0 // indirect
	github.com/ipfs/go-datastore v0.6.0 // indirect
	github.com/ipfs/go-ipfs-util v0.0.3 // indirect
	github.com/ipfs/go-ipld-legacy v0.2.1 // indirect
	github.com/ipfs/go-log/v2 v2.5.1 // indirect
	github.com/ipfs/go-metrics-interface v0.0.1 // indirect
	github.com/jbenet/goprocess v0.1.4 // indirect
	github.com/klauspost/cpuid/v2 v2.2.8 // indirect
	github.com/libp2p/go-buffer-pool v0.1.0 // indirect
	github.com/mattn/go-isatty v0.0.20 // indirect
	github.com/mr-tron/base58 v1.2.0 // indirect
	github.com/multiformats/go-base32 v0.1.0 // indirect
	github.com/multiformats/go-base36 v0.2.0 // indirect
	github.com/multiformats/go-multibase v0.2.0 // indirect
	github.com/multiformats/go-multicodec v0.9.0 // indirect
	github.com/multiformats/go-multihash v0.2.3 // indirect
	github.com/multiformats/go-varint v0.0.7 // indirect
	github.com/polydawn/refmt v0.89.0 // indirect
	github.com/whyrusleeping/chunker v0.0.0-20181014151217-fe64bd25879f // indirect
	go.opentelemetry.io/otel v1.27.0 // indirect
	go.opentelemetry.io/otel/metric v1.27.0 // indirect
	go.opentelemetry.io/otel/trace v1.27.0 // indirect
	go.uber.org/multierr v1.11.0 // indirect
	go.uber.org/zap v1.27.0 // indirect
	golang.org/x/crypto v0.25.0 // indirect
	golang.org/x/sync v0.7.0 // indirect
	golang.org/x/sys v0.22.0 // indirect
	google.golang.org/protobuf v1.34.2 // indirect
	lukechampine.com/blake3 v1.3.0 // indirect
)

replace github.com/ipfs/go-unixfsnode => /repo
