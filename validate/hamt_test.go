package verifvalidate

// Native validation of the assumptions behind C02/C08:
//  * refHAMT (DESIGN Appendix B; the oracle of VerifShardedDir) describes what the
//    real boxo HAMT writes, at every permitted fanout;
//  * the repository's sharded builder agrees with boxo on root CID and size;
//  * whatever insert/remove history is applied to the boxo HAMT, the shards it
//    writes are locally well-formed (WF of Appendix B) and this library reads
//    them as exactly the reference's entry set.

import (
	"context"
	"fmt"
	"math/rand"
	"sort"
	"testing"

	"bytes"
	"github.com/ipfs/boxo/ipld/merkledag"
	mdtest "github.com/ipfs/boxo/ipld/merkledag/test"
	"github.com/ipfs/boxo/ipld/unixfs"
	boxohamt "github.com/ipfs/boxo/ipld/unixfs/hamt"
	"github.com/ipfs/go-cid"
	ipldfmt "github.com/ipfs/go-ipld-format"
	unixfsnode "github.com/ipfs/go-unixfsnode"
	"github.com/ipfs/go-unixfsnode/data"
	"github.com/ipfs/go-unixfsnode/data/builder"
	dagpb "github.com/ipld/go-codec-dagpb"
	"github.com/ipld/go-ipld-prime"
	"github.com/ipld/go-ipld-prime/datamodel"
	"github.com/ipld/go-ipld-prime/linking"
	cidlink "github.com/ipld/go-ipld-prime/linking/cid"
	"github.com/ipld/go-ipld-prime/storage/memstore"
	"github.com/spaolacci/murmur3"
	"io"
)

func chunkOf(h uint64, depth, lg int) int { return int(h>>uint(64-(depth+1)*lg)) & (1<<uint(lg) - 1) }

type refShard struct {
	buckets []int
	value   map[int]string
	child   map[int]*refShard
}

func refHAMT(names []string, depth, lg int) *refShard {
	s := &refShard{value: map[int]string{}, child: map[int]*refShard{}}
	groups := map[int][]string{}
	for _, n := range names {
		b := chunkOf(murmur3.Sum64([]byte(n)), depth, lg)
		groups[b] = append(groups[b], n)
	}
	for b := range groups {
		s.buckets = append(s.buckets, b)
	}
	sort.Ints(s.buckets)
	for _, b := range s.buckets {
		if len(groups[b]) == 1 {
			s.value[b] = groups[b][0]
		} else {
			s.child[b] = refHAMT(groups[b], depth+1, lg)
		}
	}
	return s
}

// lsOverDag lets go-ipld-prime read blocks held by a boxo DAGService.
func lsOverDag(ds ipldfmt.DAGService) *ipld.LinkSystem {
	ls := cidlink.DefaultLinkSystem()
	ls.TrustedStorage = true
	ls.StorageReadOpener = func(lc linking.LinkContext, l datamodel.Link) (io.Reader, error) {
		nd, err := ds.Get(context.Background(), l.(cidlink.Link).Cid)
		if err != nil {
			return nil, err
		}
		return bytes.NewReader(nd.RawData()), nil
	}
	unixfsnode.AddUnixFSReificationToLinkSystem(&ls)
	return &ls
}

func checkShard(t *testing.T, ls *ipld.LinkSystem, c cid.Cid, ref *refShard, lg int, canonical bool, parentFanout int64) {
	nd, err := ls.Load(ipld.LinkContext{}, cidlink.Link{Cid: c}, dagpb.Type.PBNode)
	if err != nil {
		t.Fatal(err)
	}
	pbn := nd.(dagpb.PBNode)
	ufd, err := data.DecodeUnixFSData(pbn.FieldData().Must().Bytes())
	if err != nil {
		t.Fatal(err)
	}
	if ufd.FieldDataType().Int() != data.Data_HAMTShard || ufd.FieldHashType().Must().Int() != 0x22 || ufd.FieldFanout().Must().Int() != int64(1)<<uint(lg) {
		t.Fatalf("shard header: type %d hash %x fanout %d", ufd.FieldDataType().Int(), ufd.FieldHashType().Must().Int(), ufd.FieldFanout().Must().Int())
	}
	pad := len(fmt.Sprintf("%X", (1<<uint(lg))-1))
	bf := ufd.FieldData().Must().Bytes()
	if len(bf) > (1<<uint(lg))/8 {
		t.Fatalf("bitfield longer than the fanout allows")
	}
	bit := func(i int) bool {
		idx := len(bf) - 1 - i/8
		return idx >= 0 && bf[idx]>>(uint(i)%8)&1 == 1
	}
	// WF: prefixes are distinct increasing upper-hex buckets; bit set <=> link present
	links := pbn.FieldLinks()
	prev := -1
	seen := map[int]bool{}
	for i := int64(0); i < links.Length(); i++ {
		l := links.Lookup(i)
		name := l.FieldName().Must().String()
		if len(name) < pad {
			t.Fatalf("link name %q shorter than prefix", name)
		}
		var b int
		if _, err := fmt.Sscanf(name[:pad], "%X", &b); err != nil || fmt.Sprintf("%0*X", pad, b) != name[:pad] {
			t.Fatalf("link prefix %q is not upper hex", name[:pad])
		}
		if b <= prev {
			t.Fatalf("buckets not increasing: %d after %d", b, prev)
		}
		prev = b
		seen[b] = true
		if !bit(b) {
			t.Fatalf("link for bucket %d but bit unset", b)
		}
		if ref != nil {
			if v, ok := ref.value[b]; ok {
				if name[pad:] != v {
					t.Fatalf("bucket %d holds %q, reference model says value %q", b, name, v)
				}
			} else if ch, ok := ref.child[b]; ok {
				if len(name) != pad {
					t.Fatalf("bucket %d: reference model says sub-shard, link name %q", b, name)
				}
				checkShard(t, ls, l.FieldHash().Link().(cidlink.Link).Cid, ch, lg, canonical, 0)
			} else {
				t.Fatalf("bucket %d not in the reference model", b)
			}
		} else if len(name) == pad {
			checkShard(t, ls, l.FieldHash().Link().(cidlink.Link).Cid, nil, lg, false, 0)
		}
	}
	for i := 0; i < 1<<uint(lg); i++ {
		if bit(i) != seen[i] {
			t.Fatalf("bit %d = %v but link present = %v", i, bit(i), seen[i])
		}
	}
	if ref != nil && len(seen) != len(ref.buckets) {
		t.Fatalf("bucket count %d, reference model %d", len(seen), len(ref.buckets))
	}
}

func leafNode(name string) ipldfmt.Node {
	n := merkledag.NodeWithData(unixfs.FilePBData([]byte(name), uint64(len(name))))
	n.SetCidBuilder(merkledag.V1CidPrefix())
	return n
}

func TestRefHAMTAndBuilderMatchBoxo(t *testing.T) {
	for _, lg := range []int{3, 4, 5, 6, 7, 8, 9, 10} {
		for _, n := range []int{1, 2, 5, 40, 300} {
			ds := mdtest.Mock()
			sh, err := boxohamt.NewShard(ds, 1<<uint(lg))
			if err != nil {
				t.Fatal(err)
			}
			sh.SetCidBuilder(merkledag.V1CidPrefix())
			var names []string
			ls := cidlink.DefaultLinkSystem()
			st := &memstore.Store{}
			ls.SetReadStorage(st)
			ls.SetWriteStorage(st)
			var entries []dagpb.PBLink
			for i := 0; i < n; i++ {
				name := fmt.Sprintf("f%d-%d", lg, i)
				names = append(names, name)
				leaf := leafNode(name)
				if err := ds.Add(context.Background(), leaf); err != nil {
					t.Fatal(err)
				}
				if err := sh.Set(context.Background(), name, leaf); err != nil {
					t.Fatal(err)
				}
				sz, _ := leaf.Size()
				e, _ := builder.BuildUnixFSDirectoryEntry(name, int64(sz), cidlink.Link{Cid: leaf.Cid()})
				entries = append(entries, e)
			}
			root, err := sh.Node()
			if err != nil {
				t.Fatal(err)
			}
			// (1) boxo's stored structure is the reference model's
			checkShard(t, lsOverDag(ds), root.Cid(), refHAMT(names, 0, lg), lg, true, 0)
			// (2) the repository's builder returns boxo's root and size
			lnk, size, err := builder.BuildUnixFSShardedDirectory(1<<uint(lg), 0x22, entries, &ls)
			if err != nil {
				t.Fatal(err)
			}
			bsz, _ := root.Size()
			if lnk.(cidlink.Link).Cid != root.Cid() || size != bsz {
				t.Fatalf("fanout %d, %d entries: builder %s/%d, boxo %s/%d", 1<<uint(lg), n, lnk, size, root.Cid(), bsz)
			}
		}
	}
}

func TestBoxoHistoriesLeaveWellFormedReadableShards(t *testing.T) {
	for _, lg := range []int{3, 4, 8} {
		for seed := int64(0); seed < 6; seed++ {
			rng := rand.New(rand.NewSource(seed))
			ds := mdtest.Mock()
			sh, _ := boxohamt.NewShard(ds, 1<<uint(lg))
			sh.SetCidBuilder(merkledag.V1CidPrefix())
			model := map[string]cid.Cid{}
			for step := 0; step < 120; step++ {
				name := fmt.Sprintf("n%d", rng.Intn(60))
				if rng.Intn(3) == 0 {
					_ = sh.Remove(context.Background(), name)
					delete(model, name)
				} else {
					leaf := leafNode(fmt.Sprintf("%s-%d", name, step))
					ds.Add(context.Background(), leaf)
					if err := sh.Set(context.Background(), name, leaf); err != nil {
						t.Fatal(err)
					}
					model[name] = leaf.Cid()
				}
				if step%15 != 14 || len(model) == 0 {
					continue
				}
				root, err := sh.Node()
				if err != nil {
					t.Fatal(err)
				}
				ls := lsOverDag(ds)
				checkShard(t, ls, root.Cid(), nil, lg, false, 0) // WF only: histories need not be canonical
				nd, err := ls.Load(ipld.LinkContext{}, cidlink.Link{Cid: root.Cid()}, dagpb.Type.PBNode)
				if err != nil {
					t.Fatal(err)
				}
				r, err := unixfsnode.Reify(ipld.LinkContext{}, nd, ls)
				if err != nil {
					t.Fatal(err)
				}
				if r.Length() != int64(len(model)) {
					t.Fatalf("lg %d seed %d step %d: Length %d, reference holds %d", lg, seed, step, r.Length(), len(model))
				}
				for name, c := range model {
					v, err := r.LookupByString(name)
					if err != nil {
						t.Fatalf("member %q not found: %v", name, err)
					}
					l, _ := v.AsLink()
					if l.(cidlink.Link).Cid != c {
						t.Fatalf("member %q resolves to %s, reference %s", name, l, c)
					}
				}
				if _, err := r.LookupByString("absent-name"); err == nil {
					t.Fatalf("non-member found")
				}
				got := 0
				for it := r.MapIterator(); !it.Done(); got++ {
					k, v, err := it.Next()
					if err != nil {
						t.Fatal(err)
					}
					ks, _ := k.AsString()
					l, _ := v.AsLink()
					if model[ks] != l.(cidlink.Link).Cid {
						t.Fatalf("iteration yields %q -> %s, reference %s", ks, l, model[ks])
					}
				}
				if got != len(model) {
					t.Fatalf("iteration yields %d entries, reference holds %d", got, len(model))
				}
			}
		}
	}
}
