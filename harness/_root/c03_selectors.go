package unixfsnode

import (
	"github.com/ipfs/go-unixfsnode/internal/verifrt"
	"github.com/ipld/go-ipld-prime/datamodel"
	"github.com/ipld/go-ipld-prime/fluent/qp"
	"github.com/ipld/go-ipld-prime/node/basicnode"
	"github.com/ipld/go-ipld-prime/traversal/selector"
	"github.com/ipld/go-ipld-prime/traversal/selector/builder"
)

// refSegments: the non-empty pieces between slashes (go-ipld-prime Path rules:
// leading, trailing and redundant slashes are ignored; "." and ".." are ordinary
// field names).
func refSegments(path string) []string {
	var segs []string
	start := 0
	for i := 0; i <= len(path); i++ {
		if i == len(path) || path[i] == '/' {
			if i > start {
				segs = append(segs, path[start:i])
			}
			start = i + 1
		}
	}
	return segs
}

// refSelector builds the expected selector tree without the selector builder.
func refSelector(segs []string, target datamodel.Node, matchPath bool) datamodel.Node {
	cur := target
	for i := len(segs) - 1; i >= 0; i-- {
		seg := segs[i]
		inner := cur
		n, err := qp.BuildMap(basicnode.Prototype.Any, 1, func(ma datamodel.MapAssembler) {
			qp.MapEntry(ma, selector.SelectorKey_ExploreInterpretAs, qp.Map(2, func(ma datamodel.MapAssembler) {
				qp.MapEntry(ma, selector.SelectorKey_As, qp.String("unixfs"))
				qp.MapEntry(ma, selector.SelectorKey_Next, qp.Map(1, func(ma datamodel.MapAssembler) {
					qp.MapEntry(ma, selector.SelectorKey_ExploreFields, qp.Map(1, func(ma datamodel.MapAssembler) {
						qp.MapEntry(ma, selector.SelectorKey_Fields, qp.Map(1, func(ma datamodel.MapAssembler) {
							qp.MapEntry(ma, seg, qp.Node(inner))
						}))
					}))
				}))
			}))
		})
		verifrt.Assert(err == nil, "harness:ref-builds")
		cur = n
		if matchPath {
			u, err := qp.BuildMap(basicnode.Prototype.Any, 1, func(ma datamodel.MapAssembler) {
				qp.MapEntry(ma, selector.SelectorKey_ExploreUnion, qp.List(2, func(la datamodel.ListAssembler) {
					qp.ListEntry(la, qp.Map(1, func(ma datamodel.MapAssembler) {
						qp.MapEntry(ma, selector.SelectorKey_Matcher, qp.Map(0, func(datamodel.MapAssembler) {}))
					}))
					qp.ListEntry(la, qp.Node(n))
				}))
			})
			verifrt.Assert(err == nil, "harness:ref-builds")
			cur = u
		}
	}
	return cur
}

// VerifPathSelectorShape (C03-S1): for every path string of `len` ASCII bytes
// (slashes, dots, percent, spaces are ordinary members of the range) the selector
// produced is exactly one InterpretAs("unixfs")+ExploreFields{segment} per
// non-empty segment, first segment outermost, the target innermost, and a
// Matcher union at every level iff matchPath.
func VerifPathSelectorShape() {
	L := verifrt.Param("len", 3)
	path := verifrt.String(L)
	for i := 0; i < L; i++ {
		verifrt.Assume(path[i] < 0x80)
	}
	var target builder.SelectorSpec
	switch verifrt.Choose(4) {
	case 0:
		target = MatchUnixFSSelector
	case 1:
		target = MatchUnixFSPreloadSelector
	case 2:
		target = MatchUnixFSEntitySelector
	default:
		target = ExploreAllRecursivelySelector
	}
	matchPath := verifrt.Choose(2) == 1
	got := UnixFSPathSelectorBuilder(path, target, matchPath)
	segs := refSegments(path)
	want := refSelector(segs, target.Node(), matchPath)
	verifrt.Assert(datamodel.DeepEqual(got, want), "selector:shape=reference")
	if !matchPath {
		verifrt.Assert(datamodel.DeepEqual(UnixFSPathSelector(path), refSelector(segs, MatchUnixFSSelector.Node(), false)), "selector:default-builder")
	}
	if len(segs) == 0 {
		verifrt.Reach("empty-path")
		verifrt.Assert(datamodel.DeepEqual(got, target.Node()), "selector:empty-path-is-target")
	}
	// the selector compiles
	_, err := selector.CompileSelector(got)
	verifrt.Assert(err == nil, "selector:compiles")
	verifrt.Reach("end")
}
