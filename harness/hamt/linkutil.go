package hamt

import (
	"github.com/ipfs/go-cid"
	dagpb "github.com/ipld/go-codec-dagpb"
	"github.com/ipld/go-ipld-prime/datamodel"
	"github.com/ipld/go-ipld-prime/fluent/qp"
	cidlink "github.com/ipld/go-ipld-prime/linking/cid"
	mh "github.com/multiformats/go-multihash"
)

func linkNamed(hasName bool, name string) dagpb.PBLink {
	d := make([]byte, 32)
	d[0] = 0xE7
	m, _ := mh.Encode(d, mh.SHA2_256)
	lnk := cidlink.Link{Cid: cid.NewCidV1(cid.Raw, m)}
	n, err := qp.BuildMap(dagpb.Type.PBLink, 2, func(ma datamodel.MapAssembler) {
		qp.MapEntry(ma, "Hash", qp.Link(lnk))
		if hasName {
			qp.MapEntry(ma, "Name", qp.String(name))
		}
	})
	if err != nil {
		panic(err)
	}
	return n.(dagpb.PBLink)
}
