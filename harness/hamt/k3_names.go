package hamt

import (
	"unicode/utf8"

	"github.com/ipfs/go-unixfsnode/internal/verifrt"
	dagpb "github.com/ipld/go-codec-dagpb"
)

// VerifCheckLogTwo: checkLogTwo accepts exactly the positive powers of two.
func VerifCheckLogTwo() {
	v := verifrt.Int()
	err := checkLogTwo(v)
	isPow := v > 0 && v&(v-1) == 0
	verifrt.Assert((err == nil) == isPow, "accepts-exactly-powers")
	verifrt.Reach("end")
}

// VerifMkmask: mkmask(n) = low n bits for 0..8.
func VerifMkmask() {
	n := verifrt.IntRange(0, 8)
	verifrt.Assert(int(mkmask(n)) == (1<<uint(n)-1)&0xff, "mkmask")
	verifrt.Reach("end")
}

// strEqSpec: independent equality of two strings.
func strEqSpec(a, b string) bool {
	if len(a) != len(b) {
		return false
	}
	eq := true
	for i := 0; i < len(a); i++ {
		eq = verifrt.And(eq, a[i] == b[i])
	}
	return eq
}

// VerifMatchKey (K3): for every prefix width 1..3, every link name of pad..pad+3
// arbitrary bytes and every key of 0..3 arbitrary bytes, MatchKey holds exactly
// when the name without its prefix IS the key (not a suffix, not a prefix of it).
func VerifMatchKey() {
	pad := 1 + verifrt.Choose(3)
	name := verifrt.String(pad + verifrt.Choose(4))
	key := verifrt.String(verifrt.Choose(4))
	l := linkNamed(true, name)
	got := MatchKey(l, key, pad)
	verifrt.Assert(got == strEqSpec(name[pad:], key), "matchkey=exact-suffix-equality")
	verifrt.Reach("end")
}

// VerifIsValueLink (K3): classification of a link by its name length.
func VerifIsValueLink() {
	pad := 1 + verifrt.Choose(3)
	hasName := verifrt.Choose(2) == 1
	name := verifrt.String(verifrt.Choose(pad + 3))
	l := linkNamed(hasName, name)
	var isVal bool
	var err error
	panicked, _ := verifrt.Catch(func() { isVal, err = isValueLink(l, pad) })
	verifrt.Assert(!panicked, "isvaluelink:no-panic")
	switch {
	case !hasName:
		verifrt.Assert(!isVal && err == ErrMissingLinkName, "isvaluelink:missing-name")
	case len(name) < pad:
		_, bad := err.(ErrInvalidLinkName)
		verifrt.Assert(!isVal && bad, "isvaluelink:short-name-rejected")
	case len(name) == pad:
		verifrt.Assert(!isVal && err == nil, "isvaluelink:prefix-only-is-shard-link")
	default:
		verifrt.Assert(isVal && err == nil, "isvaluelink:longer-is-value-link")
	}
	verifrt.Reach("end")
}

// VerifTransformName (K3): stripping the prefix returns exactly the rest.
func VerifTransformName() {
	pad := 1 + verifrt.Choose(3)
	name := verifrt.String(pad + verifrt.Choose(3))
	s, _ := dagpb.Type.String.FromString(name)
	out := stringTransformer{maxPadLen: pad}.transformNameNode(s)
	verifrt.Assert(out != nil && strEqSpec(out.String(), name[pad:]), "transform=strip-prefix")
	verifrt.Reach("end")
}

// VerifEngineRunes (engine self-check, not a property of the library): the engine's
// built-in string<->[]rune conversions and range-over-string agree with the real
// unicode/utf8 code (interpreted instruction by instruction) on every byte string of
// the bound.
func VerifEngineRunes() {
	n := verifrt.Param("len", 3)
	s := verifrt.String(n)
	rs := []rune(s)
	var want []rune
	for i := 0; i < len(s); {
		r, sz := utf8.DecodeRuneInString(s[i:])
		want = append(want, r)
		i += sz
	}
	verifrt.Assert(len(rs) == len(want), "engine:rune-count")
	for i := range want {
		if i < len(rs) {
			verifrt.Assert(rs[i] == want[i], "engine:rune-values")
		}
	}
	k := 0
	for _, r := range s {
		verifrt.Assert(k < len(want) && r == want[k], "engine:range-runes")
		k++
	}
	var enc []byte
	for _, r := range want {
		enc = utf8.AppendRune(enc, r)
	}
	verifrt.Assert(strEqSpec(string(rs), string(enc)), "engine:runes-to-string")
	verifrt.Reach("end")
}
