package hamt

import (
	"fmt"

	"github.com/ipfs/go-unixfsnode/internal/verifrt"
)

// padWidth is the spec of the prefix width: number of hex digits of fanout-1.
func specPadWidth(lg int) int { return (lg + 3) / 4 }

// VerifCheckLogTwo: checkLogTwo accepts exactly the positive powers of two.
func VerifCheckLogTwo() {
	v := verifrt.Int()
	err := checkLogTwo(v)
	isPow := v > 0 && v&(v-1) == 0
	verifrt.Assert((err == nil) == isPow, "accepts-exactly-powers")
	verifrt.Reach("end")
}

// VerifMkmask: mkmask(n) = low n bits for 0..8.
func VerifMkmask() {
	n := verifrt.IntRange(0, 8)
	verifrt.Assert(int(mkmask(n)) == (1<<uint(n)-1)&0xff, "mkmask")
	verifrt.Reach("end")
}

var _ = fmt.Sprintf
