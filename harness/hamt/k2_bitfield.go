package hamt

import (
	"math/bits"

	bitfield "github.com/ipfs/go-bitfield"
	"github.com/ipfs/go-unixfsnode/internal/verifrt"
)

// VerifBitfieldLaws (param nb = bitfield bytes): for every bitfield content and
// every index, Bit(i) is bit i (LSB of the last byte = bit 0), OnesBefore(i) is
// the number of set bits below i (= position of bucket i in the sorted link
// list), and SetBytes(Bytes(bf)) reproduces bf (leading zero bytes dropped on
// the wire, restored on read).
func VerifBitfieldLaws() {
	nb := verifrt.Param("nb", 2)
	raw := verifrt.Bytes(nb)
	bf, err := bitfield.NewBitfield(nb * 8)
	verifrt.Assert(err == nil, "new")
	bf.SetBytes(raw)
	i := verifrt.Choose(nb * 8) // case split: every index, concrete per path
	// spec bit j
	bit := func(j int) bool { return (raw[nb-1-j/8]>>(uint(j)%8))&1 != 0 }
	// Bit(i) for symbolic i: compare against the spec selected by the same i
	got := bf.Bit(i)
	want := false
	rank := 0
	total := 0
	if nb <= 2 {
		// independent bit-by-bit specification
		for j := 0; j < nb*8; j++ {
			bj := bit(j)
			want = verifrt.Or(want, verifrt.And(i == j, bj))
			rank += verifrt.Ite(verifrt.And(j < i, bj), 1, 0)
			total += verifrt.Ite(bj, 1, 0)
		}
	} else {
		// wide bitfields: the per-byte population count is taken as a primitive on both
		// sides (two differently associated adder trees over 32+ bits are out of reach of
		// the bit-blaster); what is checked is the byte/bit index arithmetic
		want = bit(i)
		for k := 0; k < nb; k++ { // byte k holds bits 8*(nb-1-k) .. +7
			lo := 8 * (nb - 1 - k)
			total += bits.OnesCount8(raw[k])
			switch {
			case lo+8 <= i:
				rank += bits.OnesCount8(raw[k])
			case lo < i:
				rank += bits.OnesCount8(raw[k] & (1<<uint(i-lo) - 1))
			}
		}
	}
	verifrt.Assert(got == want, "bit=spec")
	verifrt.Assert(bf.OnesBefore(i) == rank, "onesbefore=rank")
	verifrt.Assert(bf.Ones() == total, "ones=popcount")
	// wire round trip
	wire := bf.Bytes()
	bf2, _ := bitfield.NewBitfield(nb * 8)
	bf2.SetBytes(wire)
	verifrt.Assert(verifrt.BytesEq(bf2, bf), "setbytes(bytes)=id")
	verifrt.Assert(len(wire) == 0 || wire[0] != 0, "no-leading-zero-byte")
	verifrt.Reach("end")
}

// VerifBitfieldSetBit: SetBit(i) sets exactly bit i.
func VerifBitfieldSetBit() {
	nb := verifrt.Param("nb", 2)
	raw := verifrt.Bytes(nb)
	bf, _ := bitfield.NewBitfield(nb * 8)
	bf.SetBytes(raw)
	i := verifrt.IntRange(0, nb*8-1)
	j := verifrt.IntRange(0, nb*8-1)
	before := bf.Bit(j)
	bf.SetBit(i)
	after := bf.Bit(j)
	verifrt.Assert(after == verifrt.Or(before, i == j), "setbit")
	verifrt.Reach("end")
}
