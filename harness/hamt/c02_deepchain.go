package hamt

import (
	"fmt"

	"github.com/ipfs/go-cid"
	"github.com/ipfs/go-unixfsnode/data"
	"github.com/ipfs/go-unixfsnode/internal/verifmodel"
	"github.com/ipfs/go-unixfsnode/internal/verifrt"
	dagpb "github.com/ipld/go-codec-dagpb"
	"github.com/ipld/go-ipld-prime"
	"github.com/ipld/go-ipld-prime/datamodel"
	"github.com/ipld/go-ipld-prime/fluent/qp"
	cidlink "github.com/ipld/go-ipld-prime/linking/cid"
	"github.com/ipld/go-ipld-prime/schema"
)

func chunkAt(h []byte, depth, lg int) int {
	var v uint64
	for _, b := range h {
		v = v<<8 | uint64(b)
	}
	return int(v>>uint(64-(depth+1)*lg)) & (1<<uint(lg) - 1)
}

type dcLink struct {
	hash datamodel.Link
	name string
}

func dcShard(ls *ipld.LinkSystem, lg int, buckets []int, links []dcLink) datamodel.Link {
	nbytes := (1 << uint(lg)) / 8
	bf := make([]byte, nbytes)
	for _, b := range buckets {
		bf[nbytes-1-b/8] |= 1 << uint(b%8)
	}
	for len(bf) > 0 && bf[0] == 0 {
		bf = bf[1:]
	}
	// UnixFS Data: type=HAMTShard(5), data=bitfield, hashType=0x22, fanout
	d := []byte{0x08, 0x05, 0x12, byte(len(bf))}
	d = append(d, bf...)
	d = append(d, 0x28, 0x22, 0x30)
	f := uint64(1) << uint(lg)
	for f >= 0x80 {
		d = append(d, byte(f)|0x80)
		f >>= 7
	}
	d = append(d, byte(f))
	n, err := qp.BuildMap(dagpb.Type.PBNode, 2, func(ma datamodel.MapAssembler) {
		qp.MapEntry(ma, "Links", qp.List(int64(len(links)), func(la datamodel.ListAssembler) {
			for _, l := range links {
				l := l
				qp.ListEntry(la, qp.Map(3, func(ma datamodel.MapAssembler) {
					qp.MapEntry(ma, "Hash", qp.Link(l.hash))
					qp.MapEntry(ma, "Name", qp.String(l.name))
					qp.MapEntry(ma, "Tsize", qp.Int(1))
				}))
			}
		}))
		qp.MapEntry(ma, "Data", qp.Bytes(d))
	})
	verifrt.Assert(err == nil, "harness:shard-builds")
	lnk, err := ls.Store(ipld.LinkContext{}, cidlink.LinkPrototype{Prefix: cid.Prefix{Version: 1, Codec: 0x70, MhType: 0x12, MhLength: 32}}, n)
	verifrt.Assert(err == nil, "harness:store")
	return lnk
}

// VerifReaderDeepChain (C02/C08/C13): a chain of `levels` single-link shards
// (well-formed up to the number of whole bucket indices a 64-bit hash holds, one
// more for the hostile case) ending in a value link: the reader finds the key whose
// hash follows the chain, reports not-found for a key that leaves the chain at any
// level, and reports the too-deep error — never a panic — when the chain is longer
// than the hash. The key's hash is handed to lookup directly (any 64-bit value).
func VerifReaderDeepChain() {
	lg := verifrt.Param("lg", 3)
	maxChunks := 64 / lg
	levels := 1 + verifrt.Choose(maxChunks+1) // 1..maxChunks+1 shard levels
	h := verifrt.Bytes(8)
	for i := 0; i < maxChunks; i++ {
		// one bucket pattern along the chain (bucket values are covered elsewhere)
		verifrt.Assume(chunkAt(h, i, lg) == (i*5+3)%(1<<uint(lg)))
	}
	pad := (lg + 3) / 4
	st := verifmodel.NewStore()
	ls := st.LinkSystem()
	target := linkNamed(true, "x").FieldHash().Link()
	// build bottom-up: level i (0-based from the root) uses bucket chunk(h, i)
	var child datamodel.Link
	for i := levels - 1; i >= 0; i-- {
		b := 0
		if i < maxChunks {
			b = verifrt.Concrete(chunkAt(h, i, lg))
		}
		prefix := fmt.Sprintf("%0*X", pad, b)
		if i == levels-1 {
			child = dcShard(ls, lg, []int{b}, []dcLink{{target, prefix + "key"}})
		} else {
			child = dcShard(ls, lg, []int{b}, []dcLink{{child, prefix}})
		}
	}
	rootNd, err := ls.Load(ipld.LinkContext{}, child, dagpb.Type.PBNode)
	verifrt.Assert(err == nil, "harness:root-loads")
	ufd, err := data.DecodeUnixFSData(rootNd.(dagpb.PBNode).FieldData().Must().Bytes())
	verifrt.Assert(err == nil, "harness:root-data")
	n, err := NewUnixFSHAMTShard(nil, rootNd.(dagpb.PBNode), ufd, ls)
	verifrt.Assert(err == nil, "reader:root-shard-valid")
	shardNode := n.(UnixFSHAMTShard)
	var got dagpb.Link
	var lerr error
	panicked, _ := verifrt.Catch(func() { got, lerr = shardNode.lookup("key", &hashBits{b: h}) })
	verifrt.Assert(!panicked, "reader:deep-lookup-no-panic")
	if levels > maxChunks {
		verifrt.Reach("too-deep")
		verifrt.Assert(lerr == ErrHAMTTooDeep, "reader:chain-longer-than-hash-is-too-deep-error")
	} else {
		verifrt.Assert(lerr == nil && got != nil && got.Link() == target, "reader:member-found-at-depth")
		verifrt.Reach("deep-ok")
		// a key leaving the chain at some level is not found
		h2 := verifrt.Bytes(8)
		d := verifrt.Choose(levels)
		for i := 0; i < d; i++ {
			verifrt.Assume(chunkAt(h2, i, lg) == chunkAt(h, i, lg))
		}
		verifrt.Assume(chunkAt(h2, d, lg) != chunkAt(h, d, lg))
		_, lerr2 := shardNode.lookup("other", &hashBits{b: h2})
		_, nf := lerr2.(schema.ErrNoSuchField)
		verifrt.Assert(nf, "reader:diverging-key-not-found")
	}
	verifrt.Reach("end")
}
