package hamt

import (
	"encoding/binary"

	"github.com/ipfs/go-unixfsnode/internal/verifrt"
)

// VerifHashBitsNext: reader-side hashBits.Next from an arbitrary reachable
// state (consumed = d*lg) equals the big-endian bit slice of the 64-bit hash.
func VerifHashBitsNext() {
	var b [8]byte
	for i := range b {
		b[i] = verifrt.U8()
	}
	lg := 3 + verifrt.Choose(8) // log2(fanout) 3..10
	d := verifrt.IntRange(0, 21)
	hb := &hashBits{b: b[:], consumed: d * lg}
	got, err := hb.Next(lg)
	if (d+1)*lg > 64 {
		verifrt.Reach("too-deep")
		verifrt.Assert(err == ErrHAMTTooDeep, "too-deep-error")
		return
	}
	h := binary.BigEndian.Uint64(b[:])
	want := int(h>>uint(64-(d+1)*lg)) & (1<<uint(lg) - 1)
	verifrt.Assert(err == nil, "no-error")
	verifrt.Assert(got == want, "next=spec")
	verifrt.Assert(hb.consumed == (d+1)*lg, "consumed-advances")
	verifrt.Assert(got >= 0 && got < 1<<uint(lg), "in-range")
	verifrt.Reach("end")
}

// VerifHashBitsStep: inductive step from an arbitrary state (any consumed, any
// width 1..63 — hostile shards may declare any power-of-two fanout): no panic,
// error exactly when not enough bits remain, value = big-endian bit slice.
func VerifHashBitsStep() {
	var b [8]byte
	for i := range b {
		b[i] = verifrt.U8()
	}
	// widths and offsets are case-split (complete within the stated sets) so that
	// every shift amount is a constant; the 64 hash bits stay symbolic
	var i int
	if verifrt.Param("allwidths", 0) == 1 {
		i = 1 + verifrt.Choose(63)
	} else {
		ws := []int{1, 2, 3, 4, 5, 6, 7, 8, 9, 10, 11, 12, 16, 17, 32, 62, 63}
		i = ws[verifrt.Choose(len(ws))]
	}
	consumed := verifrt.Choose(65)
	hb := &hashBits{b: b[:], consumed: consumed}
	var got int
	var err error
	panicked, _ := verifrt.Catch(func() { got, err = hb.Next(i) })
	verifrt.Assert(!panicked, "no-panic")
	if consumed+i > 64 {
		verifrt.Reach("too-deep")
		verifrt.Assert(err == ErrHAMTTooDeep, "too-deep-error")
		verifrt.Assert(hb.consumed == consumed, "consumed-unchanged-on-error")
		return
	}
	h := binary.BigEndian.Uint64(b[:])
	want := int(h>>uint(64-consumed-i)) & (1<<uint(i) - 1)
	verifrt.Assert(err == nil, "no-error")
	verifrt.Assert(got == want, "next=spec")
	verifrt.Assert(hb.consumed == consumed+i, "consumed-advances")
	verifrt.Reach("end")
}
