package hamt

import (
	"encoding/binary"

	"github.com/ipfs/go-unixfsnode/internal/verifrt"
)

// VerifHashBitsNext: reader-side hashBits.Next from an arbitrary reachable
// state (consumed = d*lg) equals the big-endian bit slice of the 64-bit hash.
func VerifHashBitsNext() {
	var b [8]byte
	for i := range b {
		b[i] = verifrt.U8()
	}
	lg := 3 + verifrt.Choose(8) // log2(fanout) 3..10
	d := verifrt.IntRange(0, 21)
	hb := &hashBits{b: b[:], consumed: d * lg}
	got, err := hb.Next(lg)
	if (d+1)*lg > 64 {
		verifrt.Reach("too-deep")
		verifrt.Assert(err == ErrHAMTTooDeep, "too-deep-error")
		return
	}
	h := binary.BigEndian.Uint64(b[:])
	want := int(h>>uint(64-(d+1)*lg)) & (1<<uint(lg) - 1)
	verifrt.Assert(err == nil, "no-error")
	verifrt.Assert(got == want, "next=spec")
	verifrt.Assert(hb.consumed == (d+1)*lg, "consumed-advances")
	verifrt.Assert(got >= 0 && got < 1<<uint(lg), "in-range")
	verifrt.Reach("end")
}
