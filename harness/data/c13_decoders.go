package data

import "github.com/ipfs/go-unixfsnode/internal/verifrt"

// VerifDecodersArbitraryBytes (C13): every byte string of length `len` given to
// the three decoders yields a value or an error — never a panic — within a step
// budget linear in the input length.
func VerifDecodersArbitraryBytes() {
	L := verifrt.Param("len", 3)
	buf := verifrt.Bytes(L)
	which := verifrt.Choose(3)
	s0 := verifrt.Steps()
	var panicked bool
	var pv any
	switch which {
	case 0:
		panicked, pv = verifrt.Catch(func() {
			n, err := DecodeUnixFSData(buf)
			verifrt.Assert((n == nil) != (err == nil), "decoder:value-xor-error")
		})
	case 1:
		panicked, pv = verifrt.Catch(func() {
			n, err := DecodeUnixTime(buf)
			verifrt.Assert((n == nil) != (err == nil), "decoder:value-xor-error")
		})
	case 2:
		panicked, pv = verifrt.Catch(func() {
			n, err := DecodeUnixFSMetadata(buf)
			verifrt.Assert((n == nil) != (err == nil), "decoder:value-xor-error")
		})
	}
	if panicked {
		verifrt.Event("panic: " + verifrt.PanicValueString(pv))
	}
	verifrt.Assert(!panicked, "decoder:no-panic")
	if !verifrt.Native() {
		verifrt.Assert(verifrt.Steps()-s0 <= 20000*(L+1), "decoder:bounded-work")
	}
	verifrt.Reach("end")
}
