package data

import (
	"github.com/ipfs/go-unixfsnode/internal/verifrt"
	"github.com/ipld/go-ipld-prime"
	"github.com/ipld/go-ipld-prime/fluent/qp"
)

// lmsg is a logical UnixFS Data message (proto2 schema of the UnixFS spec).
type lmsg struct {
	hasType     bool
	typ         uint64
	hasData     bool
	data        []byte
	hasFileSize bool
	fileSize    uint64
	blockSizes  []uint64
	hasHashType bool
	hashType    uint64
	hasFanout   bool
	fanout      uint64
	hasMode     bool
	mode        uint32
	hasMtime    bool
	seconds     int64
	hasNanos    bool
	nanos       uint32
}

// symVarintLen picks an encoding length for a varint and constrains the value to
// fit; lengths > minimal give non-minimal encodings of the same value, length 10
// covers the full uint64 range (incl. 2^63, 2^64-1).
func varintLen(v uint64, lens []int) int {
	l := lens[verifrt.Choose(len(lens))]
	if l < 10 {
		verifrt.Assume(v < 1<<uint(7*l))
	}
	return l
}

// appendVarintL writes v in exactly l bytes (no branching on v).
func appendVarintL(b []byte, v uint64, l int) []byte {
	for i := 0; i < l-1; i++ {
		b = append(b, byte(v>>uint(7*i))|0x80)
	}
	if l == 10 {
		return append(b, byte(v>>63)&0x01)
	}
	return append(b, byte(v>>uint(7*(l-1)))&0x7f)
}

func appendTag(b []byte, num int, wt int) []byte {
	v := uint64(num)<<3 | uint64(wt)
	l := 1
	for x := v; x >= 0x80; x >>= 7 {
		l++
	}
	return appendVarintL(b, v, l)
}

func varintLens() []int {
	switch verifrt.Param("lens", 3) {
	case 10:
		return []int{1, 2, 3, 4, 5, 6, 7, 8, 9, 10}
	case 2:
		return []int{1, 10}
	case 1:
		return []int{10}
	}
	return []int{1, 2, 10}
}

func fieldVarint(num int, v uint64) []byte {
	b := appendTag(nil, num, 0)
	return appendVarintL(b, v, varintLen(v, varintLens()))
}

func fieldBytes(num int, p []byte) []byte {
	b := appendTag(nil, num, 2)
	b = appendVarintL(b, uint64(len(p)), 1+verifrt.Choose(2)) // length prefix minimal or padded
	return append(b, p...)
}

// unknownField returns one well-formed field with a number outside `known`.
func unknownField(maxKnown int) []byte {
	nums := []int{maxKnown + 1, 15, 16, 1000}
	if verifrt.Param("unkkinds", 1) == 0 {
		return append(appendTag(nil, 15, 0), appendVarintL(nil, verifrt.U64(), 10)...)
	}
	num := nums[verifrt.Choose(len(nums))]
	switch verifrt.Choose(5) {
	case 0:
		return fieldVarint(num, verifrt.U64())
	case 1:
		return append(appendTag(nil, num, 5), verifrt.Bytes(4)...)
	case 2:
		return append(appendTag(nil, num, 1), verifrt.Bytes(8)...)
	case 3:
		return fieldBytes(num, verifrt.Bytes(verifrt.Choose(3)))
	default: // group with one inner varint field
		b := appendTag(nil, num, 3)
		b = append(b, fieldVarint(1, uint64(verifrt.U8()))...)
		return append(b, appendTag(nil, num, 4)...)
	}
}

func encodeTimeFields(sec int64, hasNanos bool, nanos uint32) [][]byte {
	items := [][]byte{fieldVarint(1, uint64(sec))}
	if hasNanos {
		n := appendTag(nil, 2, 5)
		n = append(n, byte(nanos), byte(nanos>>8), byte(nanos>>16), byte(nanos>>24))
		items = append(items, n)
	}
	return items
}

// interleave merges items in an explorer-chosen order (every permutation is a
// path); items tagged keepOrder keep their relative order.
func permuteItems(items [][]byte) []byte {
	rest := append([][]byte{}, items...)
	var out []byte
	for len(rest) > 0 {
		i := verifrt.Choose(len(rest))
		out = append(out, rest[i]...)
		rest = append(rest[:i:i], rest[i+1:]...)
	}
	return out
}

func checkDecoded(ufd UnixFSData, m *lmsg) {
	verifrt.Assert(uint64(ufd.FieldDataType().Int()) == m.typ, "decode:type")
	verifrt.Assert(ufd.FieldData().Exists() == m.hasData, "decode:data-presence")
	if m.hasData {
		d := ufd.FieldData().Must().Bytes()
		verifrt.Assert(len(d) == len(m.data) && verifrt.BytesEq(d, m.data), "decode:data")
	}
	verifrt.Assert(ufd.FieldFileSize().Exists() == m.hasFileSize, "decode:filesize-presence")
	if m.hasFileSize {
		verifrt.Assert(uint64(ufd.FieldFileSize().Must().Int()) == m.fileSize, "decode:filesize")
	}
	verifrt.Assert(ufd.FieldBlockSizes().Length() == int64(len(m.blockSizes)), "decode:blocksizes-count")
	for i, bs := range m.blockSizes {
		n, err := ufd.FieldBlockSizes().LookupByIndex(int64(i))
		verifrt.Assert(err == nil, "decode:blocksize-present")
		v, _ := n.AsInt()
		verifrt.Assert(uint64(v) == bs, "decode:blocksize")
	}
	verifrt.Assert(ufd.FieldHashType().Exists() == m.hasHashType, "decode:hashtype-presence")
	if m.hasHashType {
		verifrt.Assert(uint64(ufd.FieldHashType().Must().Int()) == m.hashType, "decode:hashtype")
	}
	verifrt.Assert(ufd.FieldFanout().Exists() == m.hasFanout, "decode:fanout-presence")
	if m.hasFanout {
		verifrt.Assert(uint64(ufd.FieldFanout().Must().Int()) == m.fanout, "decode:fanout")
	}
	verifrt.Assert(ufd.FieldMode().Exists() == m.hasMode, "decode:mode-presence")
	if m.hasMode {
		verifrt.Assert(uint64(ufd.FieldMode().Must().Int()) == uint64(m.mode), "decode:mode")
	}
	verifrt.Assert(ufd.FieldMtime().Exists() == m.hasMtime, "decode:mtime-presence")
	if m.hasMtime {
		mt := ufd.FieldMtime().Must()
		verifrt.Assert(mt.FieldSeconds().Int() == m.seconds, "decode:seconds")
		verifrt.Assert(mt.FieldFractionalNanoseconds().Exists() == m.hasNanos, "decode:nanos-presence")
		if m.hasNanos {
			verifrt.Assert(mt.FieldFractionalNanoseconds().Must().Int() == int64(m.nanos), "decode:nanos") // fixed32: an unsigned value (0..2^32-1) in the logical message
		}
	}
	// permissions as the statement defines them
	var def int
	switch m.typ {
	case 2:
		def = 0o644
	case 1, 5:
		def = 0o755
	}
	if m.hasMode {
		verifrt.Assert(ufd.Permissions() == int(m.mode&0xFFF), "perm:low-12-bits")
	} else {
		verifrt.Assert(ufd.Permissions() == def, "perm:default-by-type")
	}
}

// optionalField fills field number f (2,3,5,6,7,8) of m with symbolic content and
// returns its wire item.
func optionalField(m *lmsg, f int) []byte {
	switch f {
	case 2:
		m.hasData, m.data = true, verifrt.Bytes(verifrt.Choose(3))
		return fieldBytes(2, m.data)
	case 3:
		m.hasFileSize, m.fileSize = true, verifrt.U64()
		return fieldVarint(3, m.fileSize)
	case 5:
		m.hasHashType, m.hashType = true, verifrt.U64()
		return fieldVarint(5, m.hashType)
	case 6:
		m.hasFanout, m.fanout = true, verifrt.U64()
		return fieldVarint(6, m.fanout)
	case 7:
		m.hasMode, m.mode = true, verifrt.U32()
		return fieldVarint(7, uint64(m.mode))
	default:
		m.hasMtime, m.seconds = true, verifrt.I64()
		m.hasNanos = verifrt.Choose(2) == 1
		if m.hasNanos {
			m.nanos = verifrt.U32()
		}
		inner := permuteItems(encodeTimeFields(m.seconds, m.hasNanos, m.nanos))
		return fieldBytes(8, inner)
	}
}

// VerifDecodeFieldOrder (C09-D1): type + `nopt` optional singular fields (every
// choice of fields) + `unk` unknown fields, in every order, with varints of several
// lengths: decodes successfully to the logical message.
func VerifDecodeFieldOrder() {
	nopt := verifrt.Param("nopt", 2)
	nunk := verifrt.Param("unk", 1)
	m := &lmsg{hasType: true, typ: uint64(verifrt.IntRange(0, 5))}
	items := [][]byte{fieldVarint(1, m.typ)}
	avail := []int{2, 3, 5, 6, 7, 8}
	for i := 0; i < nopt; i++ {
		j := verifrt.Choose(len(avail))
		f := avail[j]
		avail = avail[j+1:] // combinations, not permutations: order is chosen below
		items = append(items, optionalField(m, f))
		if len(avail) == 0 {
			break
		}
	}
	for i := 0; i < nunk; i++ {
		items = append(items, unknownField(8))
	}
	wire := permuteItems(items)
	ufd, err := DecodeUnixFSData(wire)
	verifrt.Assert(err == nil && ufd != nil, "decode:accepts-conformant-encoding")
	checkDecoded(ufd, m)
	verifrt.Reach("end")
}

// VerifDecodeBlockSizes (C09-D1): repeated blocksizes unpacked, as one packed run,
// or unpacked and interleaved with other fields.
func VerifDecodeBlockSizes() {
	maxbs := verifrt.Param("maxbs", 2)
	m := &lmsg{hasType: true, typ: uint64(verifrt.IntRange(0, 5))}
	typeItem := fieldVarint(1, m.typ)
	k := verifrt.Choose(maxbs + 1)
	for i := 0; i < k; i++ {
		m.blockSizes = append(m.blockSizes, verifrt.U64())
	}
	other := optionalField(m, 3)
	var wire []byte
	switch verifrt.Choose(3) {
	case 0: // unpacked, contiguous, after the type
		verifrt.Reach("unpacked")
		wire = append(wire, typeItem...)
		for _, bs := range m.blockSizes {
			wire = append(wire, fieldVarint(4, bs)...)
		}
		wire = append(wire, other...)
	case 1: // one packed run at an explorer-chosen position
		verifrt.Reach("packed")
		var run []byte
		for _, bs := range m.blockSizes {
			run = appendVarintL(run, bs, varintLen(bs, varintLens()))
		}
		items := [][]byte{typeItem, other}
		if k > 0 {
			items = append(items, fieldBytes(4, run))
		}
		wire = permuteItems(items)
	default: // unpacked occurrences interleaved with the other fields, relative order kept
		verifrt.Reach("interleaved")
		others := [][]byte{typeItem, other, unknownField(8)}
		bi := 0
		for bi < k || len(others) > 0 {
			takeBS := bi < k && (len(others) == 0 || verifrt.Choose(2) == 0)
			if takeBS {
				wire = append(wire, fieldVarint(4, m.blockSizes[bi])...)
				bi++
			} else {
				wire = append(wire, others[0]...)
				others = others[1:]
			}
		}
	}
	ufd, err := DecodeUnixFSData(wire)
	verifrt.Assert(err == nil && ufd != nil, "decode:accepts-conformant-encoding")
	checkDecoded(ufd, m)
	verifrt.Reach("end")
}

// VerifDecodeRequired (C09-D1): a Data message without the required type, or a
// timestamp without the required seconds, is rejected.
func VerifDecodeRequired() {
	m := &lmsg{}
	wire := optionalField(m, []int{2, 3, 5, 6, 7}[verifrt.Choose(5)])
	_, err := DecodeUnixFSData(wire)
	verifrt.Assert(err != nil, "decode:missing-type-rejected")
	n := appendTag(nil, 2, 5)
	n = append(n, verifrt.Bytes(4)...)
	_, err = DecodeUnixTime(n)
	verifrt.Assert(err != nil, "decode:missing-seconds-rejected")
	verifrt.Reach("end")
}

// VerifDecodeTime (C09-D1): the stand-alone timestamp decoder accepts every
// field order with unknown fields.
func VerifDecodeTime() {
	sec := verifrt.I64()
	hasN := verifrt.Choose(2) == 1
	var nanos uint32
	if hasN {
		nanos = verifrt.U32()
	}
	items := encodeTimeFields(sec, hasN, nanos)
	items = append(items, unknownField(2))
	ut, err := DecodeUnixTime(permuteItems(items))
	verifrt.Assert(err == nil && ut != nil, "decode:time-accepted")
	verifrt.Assert(ut.FieldSeconds().Int() == sec, "decode:seconds")
	verifrt.Assert(ut.FieldFractionalNanoseconds().Exists() == hasN, "decode:nanos-presence")
	if hasN {
		verifrt.Assert(ut.FieldFractionalNanoseconds().Must().Int() == int64(nanos), "decode:nanos") // fixed32: unsigned in the logical message
	}
	verifrt.Reach("end")
}

// VerifDecodeMetadata (C09-D1): same for the metadata decoder, plus its encoder.
func VerifDecodeMetadata() {
	hasMime := verifrt.Choose(2) == 1
	mime := verifrt.String(verifrt.Choose(3))
	var mitems [][]byte
	if hasMime {
		mitems = append(mitems, fieldBytes(1, []byte(mime)))
	}
	mitems = append(mitems, unknownField(1))
	md, err := DecodeUnixFSMetadata(permuteItems(mitems))
	verifrt.Assert(err == nil && md != nil, "decode:metadata-accepted")
	verifrt.Assert(md.FieldMimeType().Exists() == hasMime, "decode:mime-presence")
	if hasMime {
		verifrt.Assert(verifrt.StrEq(md.FieldMimeType().Must().String(), mime), "decode:mime")
		enc := EncodeUnixFSMetadata(md)
		md2, err := DecodeUnixFSMetadata(enc)
		verifrt.Assert(err == nil && verifrt.StrEq(md2.FieldMimeType().Must().String(), mime), "encode:metadata-roundtrip")
	}
	verifrt.Reach("end")
}

// ---- reference decoder (proto2 semantics of the UnixFS schema), independent of
// protowire: used to read what the library encodes (C09-D2).

func refVarint(b []byte) (uint64, []byte, bool) {
	var v uint64
	for i := 0; i < 10 && i < len(b); i++ {
		v |= uint64(b[i]&0x7f) << uint(7*i)
		if b[i] < 0x80 {
			return v, b[i+1:], true
		}
	}
	return 0, nil, false
}

func refDecode(b []byte) (*lmsg, bool) {
	m := &lmsg{}
	for len(b) > 0 {
		tag, rest, ok := refVarint(b)
		if !ok {
			return nil, false
		}
		b = rest
		num, wt := int(tag>>3), int(tag&7)
		var v uint64
		var p []byte
		switch wt {
		case 0:
			v, b, ok = refVarint(b)
			if !ok {
				return nil, false
			}
		case 2:
			var l uint64
			l, b, ok = refVarint(b)
			if !ok || l > uint64(len(b)) {
				return nil, false
			}
			n := verifrt.Concrete(int(l))
			p, b = b[:n], b[n:]
		case 5:
			if len(b) < 4 {
				return nil, false
			}
			v = uint64(b[0]) | uint64(b[1])<<8 | uint64(b[2])<<16 | uint64(b[3])<<24
			b = b[4:]
		default:
			return nil, false
		}
		switch {
		case num == 1 && wt == 0:
			m.hasType, m.typ = true, v
		case num == 2 && wt == 2:
			m.hasData, m.data = true, p
		case num == 3 && wt == 0:
			m.hasFileSize, m.fileSize = true, v
		case num == 4 && wt == 0:
			m.blockSizes = append(m.blockSizes, v)
		case num == 5 && wt == 0:
			m.hasHashType, m.hashType = true, v
		case num == 6 && wt == 0:
			m.hasFanout, m.fanout = true, v
		case num == 7 && wt == 0:
			m.hasMode, m.mode = true, uint32(v)
		case num == 8 && wt == 2:
			m.hasMtime = true
			for len(p) > 0 {
				t2, r2, ok := refVarint(p)
				if !ok {
					return nil, false
				}
				p = r2
				switch {
				case t2 == 1<<3:
					var s uint64
					s, p, ok = refVarint(p)
					if !ok {
						return nil, false
					}
					m.seconds = int64(s)
				case t2 == 2<<3|5:
					if len(p) < 4 {
						return nil, false
					}
					m.hasNanos = true
					m.nanos = uint32(p[0]) | uint32(p[1])<<8 | uint32(p[2])<<16 | uint32(p[3])<<24
					p = p[4:]
				default:
					return nil, false
				}
			}
		default:
			return nil, false
		}
	}
	return m, true
}

func buildNode(m *lmsg) (UnixFSData, error) {
	nd, err := qp.BuildMap(Type.UnixFSData, -1, func(ma ipld.MapAssembler) {
		qp.MapEntry(ma, Field__DataType, qp.Int(int64(m.typ)))
		if m.hasData {
			qp.MapEntry(ma, Field__Data, qp.Bytes(m.data))
		}
		if m.hasFileSize {
			qp.MapEntry(ma, Field__FileSize, qp.Int(int64(m.fileSize)))
		}
		qp.MapEntry(ma, Field__BlockSizes, qp.List(int64(len(m.blockSizes)), func(la ipld.ListAssembler) {
			for _, bs := range m.blockSizes {
				qp.ListEntry(la, qp.Int(int64(bs)))
			}
		}))
		if m.hasHashType {
			qp.MapEntry(ma, Field__HashType, qp.Int(int64(m.hashType)))
		}
		if m.hasFanout {
			qp.MapEntry(ma, Field__Fanout, qp.Int(int64(m.fanout)))
		}
		if m.hasMode {
			qp.MapEntry(ma, Field__Mode, qp.Int(int64(m.mode)))
		}
		if m.hasMtime {
			qp.MapEntry(ma, Field__Mtime, qp.Map(-1, func(ma ipld.MapAssembler) {
				qp.MapEntry(ma, Field__Seconds, qp.Int(m.seconds))
				if m.hasNanos {
					qp.MapEntry(ma, Field__Nanoseconds, qp.Int(int64(m.nanos)))
				}
			}))
		}
	})
	if err != nil {
		return nil, err
	}
	return nd.(UnixFSData), nil
}

func defaultPerm(typ uint64) uint32 {
	switch typ {
	case 2:
		return 0o644
	case 1, 5:
		return 0o755
	}
	return 0
}

// magnitude constrains v to one varint-length class chosen by the explorer, so the
// library's AppendVarint takes one branch per path (all classes are paths).
func magnitude(v uint64, classes []int) {
	l := classes[verifrt.Choose(len(classes))]
	if l > 1 {
		verifrt.Assume(v >= 1<<uint(7*(l-1)))
	}
	if l < 10 {
		verifrt.Assume(v < 1<<uint(7*l))
	}
}

// VerifEncodeReference (C09-D2/D3/D4): what the library encodes is read back by the
// reference decoder as the same logical message (a mode equal to the type's default
// is elided, everything else is kept); decode(encode(m)) has the same permissions;
// re-encoding a decoded canonical message reproduces its bytes.
func VerifEncodeReference() {
	nopt := verifrt.Param("nopt", 2)
	maxbs := verifrt.Param("maxbs", 1)
	classes := []int{1, 2, 5, 10}
	m := &lmsg{hasType: true, typ: uint64(verifrt.Choose(6))}
	avail := []int{2, 3, 5, 6, 7, 8}
	for i := 0; i < nopt && len(avail) > 0; i++ {
		j := verifrt.Choose(len(avail))
		f := avail[j]
		avail = avail[j+1:]
		switch f {
		case 2:
			m.hasData, m.data = true, verifrt.Bytes(verifrt.Choose(3))
		case 3:
			m.hasFileSize, m.fileSize = true, verifrt.U64()
			magnitude(m.fileSize, classes)
		case 5:
			m.hasHashType, m.hashType = true, verifrt.U64()
			magnitude(m.hashType, classes)
		case 6:
			m.hasFanout, m.fanout = true, verifrt.U64()
			magnitude(m.fanout, classes)
		case 7:
			m.hasMode, m.mode = true, verifrt.U32()
			magnitude(uint64(m.mode), []int{1, 2, 3, 4, 5})
		case 8:
			m.hasMtime, m.seconds = true, verifrt.I64()
			magnitude(uint64(m.seconds), classes)
			m.hasNanos = verifrt.Choose(2) == 1
			if m.hasNanos {
				m.nanos = verifrt.U32()
			}
		}
	}
	k := verifrt.Choose(maxbs + 1)
	for i := 0; i < k; i++ {
		bs := verifrt.U64()
		magnitude(bs, classes)
		m.blockSizes = append(m.blockSizes, bs)
	}
	nd, err := buildNode(m)
	verifrt.Assert(err == nil, "node-builds")
	enc := EncodeUnixFSData(nd)
	r, ok := refDecode(enc)
	verifrt.Assert(ok, "encode:reference-decodes")
	verifrt.Assert(r.hasType && r.typ == m.typ, "encode:type")
	verifrt.Assert(r.hasData == m.hasData && (!m.hasData || (len(r.data) == len(m.data) && verifrt.BytesEq(r.data, m.data))), "encode:data")
	verifrt.Assert(r.hasFileSize == m.hasFileSize && r.fileSize == m.fileSize, "encode:filesize")
	verifrt.Assert(len(r.blockSizes) == len(m.blockSizes), "encode:blocksizes-count")
	for i := range m.blockSizes {
		verifrt.Assert(r.blockSizes[i] == m.blockSizes[i], "encode:blocksize")
	}
	verifrt.Assert(r.hasHashType == m.hasHashType && r.hashType == m.hashType, "encode:hashtype")
	verifrt.Assert(r.hasFanout == m.hasFanout && r.fanout == m.fanout, "encode:fanout")
	elided := m.hasMode && m.mode == defaultPerm(m.typ)
	if m.hasMode && !elided {
		verifrt.Assert(r.hasMode && r.mode == m.mode, "encode:mode")
	} else {
		verifrt.Assert(!r.hasMode, "encode:default-mode-elided")
	}
	verifrt.Assert(r.hasMtime == m.hasMtime && r.seconds == m.seconds && r.hasNanos == m.hasNanos && r.nanos == m.nanos, "encode:mtime")
	// permissions survive the round trip through the library's own decoder
	back, err := DecodeUnixFSData(enc)
	verifrt.Assert(err == nil, "encode:library-decodes-own-output")
	verifrt.Assert(back.Permissions() == nd.Permissions(), "perm:survive-roundtrip")
	if m.hasMode {
		verifrt.Assert(nd.Permissions() == int(m.mode&0xFFF), "perm:low-12-bits")
	} else {
		verifrt.Assert(nd.Permissions() == int(defaultPerm(m.typ)), "perm:default-by-type")
	}
	// canonical bytes are reproduced by decode + re-encode
	verifrt.Assert(verifrt.BytesEq(EncodeUnixFSData(back), enc) && len(EncodeUnixFSData(back)) == len(enc), "encode:reencode-reproduces-bytes")
	verifrt.Reach("end")
}
