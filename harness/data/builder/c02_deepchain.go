package builder

import (
	"github.com/ipfs/go-unixfsnode/data"
	"github.com/ipfs/go-unixfsnode/internal/verifmodel"
	"github.com/ipfs/go-unixfsnode/internal/verifrt"
	dagpb "github.com/ipld/go-codec-dagpb"
	"github.com/ipld/go-ipld-prime"
)

func chunkAt(h []byte, depth, lg int) int {
	var v uint64
	for _, b := range h {
		v = v<<8 | uint64(b)
	}
	return int(v>>uint(64-(depth+1)*lg)) & (1<<uint(lg) - 1)
}

// VerifBuilderDeepChain (C02/C08): two entries whose 64-bit hashes agree on the
// first j bucket indices (every j up to the number of whole indices a hash holds)
// are pushed down j levels; the stored chain has exactly j single-link shards above
// the shard holding both; when the hash is exhausted the build fails with an error
// instead of looping or panicking. Hashes are given to shard.add directly, so the
// counterexamples replay natively without searching for murmur3 preimages.
func VerifBuilderDeepChain() {
	lg := verifrt.Param("lg", 3)
	maxChunks := 64 / lg
	j := verifrt.Choose(maxChunks + 1)
	h1, h2 := verifrt.Bytes(8), verifrt.Bytes(8)
	for d := 0; d < j; d++ {
		// the shared part of the path is pinned to one bucket pattern (the bucket values
		// are covered by the pipeline and kernel programs); depth is the subject here
		verifrt.Assume(chunkAt(h1, d, lg) == (d*5+3)%(1<<uint(lg)))
		verifrt.Assume(chunkAt(h1, d, lg) == chunkAt(h2, d, lg))
	}
	if j < maxChunks {
		verifrt.Assume(chunkAt(h1, j, lg) != chunkAt(h2, j, lg))
	}
	l0, _ := linkOfKind(0, 0)
	l1, _ := linkOfKind(0, 1)
	e1, _ := BuildUnixFSDirectoryEntry("one", 1, l0)
	e2, _ := BuildUnixFSDirectoryEntry("two", 2, l1)
	size := 1 << uint(lg)
	s := &shard{hasher: 0x22, size: size, sizeLg2: lg, width: (lg + 3) / 4, children: map[int]entry{}}
	var err1, err2 error
	panicked, _ := verifrt.Catch(func() {
		err1 = s.add(hamtLink{h1, e1})
		err2 = s.add(hamtLink{h2, e2})
	})
	verifrt.Assert(!panicked, "deep:no-panic")
	verifrt.Assert(err1 == nil, "deep:first-add-ok")
	if j == maxChunks {
		verifrt.Reach("too-deep")
		verifrt.Assert(err2 != nil, "deep:exhausted-hash-is-an-error")
		verifrt.Reach("end")
		return
	}
	verifrt.Assert(err2 == nil, "deep:second-add-ok")
	st := verifmodel.NewStore()
	ls := st.LinkSystem()
	lnk, _, err := s.serialize(ls)
	verifrt.Assert(err == nil, "deep:serialize-ok")
	// walk the chain
	cur := lnk
	for d := 0; d <= j; d++ {
		nd, err := ls.Load(ipld.LinkContext{}, cur, dagpb.Type.PBNode)
		verifrt.Assert(err == nil, "deep:block-loads")
		pbn := nd.(dagpb.PBNode)
		ufd, err := data.DecodeUnixFSData(pbn.FieldData().Must().Bytes())
		verifrt.Assert(err == nil && ufd.FieldDataType().Int() == data.Data_HAMTShard, "deep:shard-node")
		if d < j {
			verifrt.Assert(pbn.FieldLinks().Length() == 1, "deep:single-link-above-the-split")
			l := pbn.FieldLinks().Lookup(0)
			verifrt.Assert(len(l.FieldName().Must().String()) == (lg+3)/4, "deep:shard-link-name-is-prefix-only")
			cur = l.FieldHash().Link()
		} else {
			verifrt.Assert(pbn.FieldLinks().Length() == 2, "deep:both-entries-at-depth-j")
		}
	}
	verifrt.Reach("deep-ok")
	verifrt.Reach("end")
}
