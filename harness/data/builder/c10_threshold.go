package builder

import (
	"strings"

	"github.com/ipfs/go-cid"
	"github.com/ipfs/go-unixfsnode/data"
	"github.com/ipfs/go-unixfsnode/internal/verifmodel"
	"github.com/ipfs/go-unixfsnode/internal/verifrt"
	dagpb "github.com/ipld/go-codec-dagpb"
	"github.com/ipld/go-ipld-prime"
	"github.com/ipld/go-ipld-prime/datamodel"
	cidlink "github.com/ipld/go-ipld-prime/linking/cid"
	mh "github.com/multiformats/go-multihash"
)

// linkOfKind returns links of different byte lengths: CIDv1/sha2-256 (36 bytes),
// CIDv0 (34 bytes), CIDv1/identity (short).
func linkOfKind(kind int, i int) (datamodel.Link, int) {
	d := make([]byte, 32)
	d[0] = 0xA0 + byte(i)
	switch kind {
	case 0:
		m, _ := mh.Encode(d, mh.SHA2_256)
		return cidlink.Link{Cid: cid.NewCidV1(cid.Raw, m)}, 36
	case 1:
		m, _ := mh.Encode(d, mh.SHA2_256)
		return cidlink.Link{Cid: cid.NewCidV0(m)}, 34
	default:
		m, _ := mh.Encode([]byte{byte(i)}, mh.IDENTITY)
		return cidlink.Link{Cid: cid.NewCidV1(cid.Raw, m)}, 5
	}
}

// VerifEstimateDirSize (C02, C10): the sharding estimate is the sum over entries of
// name length plus link byte length — whatever the order of the entries and
// whatever mix of link kinds.
func VerifEstimateDirSize() {
	k := 1 + verifrt.Choose(3)
	var entries []dagpb.PBLink
	want := 0
	for i := 0; i < k; i++ {
		l, n := linkOfKind(verifrt.Choose(3), i)
		name := strings.Repeat("n", 1+verifrt.Choose(3)) + string(rune('a'+i))
		e, err := BuildUnixFSDirectoryEntry(name, 1, l)
		verifrt.Assert(err == nil, "entry-builds")
		entries = append(entries, e)
		want += len(name) + n
	}
	verifrt.Assert(estimateDirSize(entries) == want, "estimate=sum(name+link)")
	verifrt.Reach("end")
}

// VerifAutoShardThreshold (C02, C10): BuildUnixFSDirectory shards exactly when the
// estimate exceeds the threshold, and returns the same link and size for both orders
// of the entries — with entries whose links have different byte lengths, at
// estimates threshold-1, threshold, threshold+1.
func VerifAutoShardThreshold() {
	delta := verifrt.Choose(3) - 1 // estimate = threshold + delta
	k0, k1 := verifrt.Choose(3), verifrt.Choose(3)
	l0, n0 := linkOfKind(k0, 0)
	l1, n1 := linkOfKind(k1, 1)
	nameLen := shardSplitThreshold + delta - n0 - n1 - 1
	big := strings.Repeat("x", nameLen)
	e0, _ := BuildUnixFSDirectoryEntry(big, 1, l0)
	e1, _ := BuildUnixFSDirectoryEntry("b", 2, l1)
	st := verifmodel.NewStore()
	ls := st.LinkSystem()
	a, sa, err := BuildUnixFSDirectory([]dagpb.PBLink{e0, e1}, ls)
	verifrt.Assert(err == nil, "build1-ok")
	b, sb, err := BuildUnixFSDirectory([]dagpb.PBLink{e1, e0}, ls)
	verifrt.Assert(err == nil, "build2-ok")
	verifrt.Assert(a == b && sa == sb, "determinism:entry-order")
	nd, err := ls.Load(ipld.LinkContext{}, a, dagpb.Type.PBNode)
	verifrt.Assert(err == nil, "root-loads")
	ufd, err := data.DecodeUnixFSData(nd.(dagpb.PBNode).FieldData().Must().Bytes())
	verifrt.Assert(err == nil, "root-decodes")
	sharded := ufd.FieldDataType().Int() == data.Data_HAMTShard
	verifrt.Assert(sharded == (delta > 0), "autoshard:iff-estimate-exceeds-threshold")
	if sharded {
		verifrt.Assert(ufd.FieldFanout().Must().Int() == 256 && ufd.FieldHashType().Must().Int() == 0x22, "autoshard:fanout-256-murmur3")
		verifrt.Reach("sharded")
	} else {
		verifrt.Reach("plain")
	}
	verifrt.Reach("end")
}
