package builder

import (
	"encoding/binary"

	"github.com/ipfs/go-unixfsnode/internal/verifrt"
)

// VerifBuilderSlice: builder-side hashBits.Slice(depth*lg, lg) equals the same
// big-endian bit slice the reader is checked against (VerifHashBitsNext), for all
// hashes, fanouts 8..1024 and depths; errors exactly when the hash is exhausted.
func VerifBuilderSlice() {
	b := make([]byte, 8)
	for i := range b {
		b[i] = verifrt.U8()
	}
	lg := 3 + verifrt.Choose(8)
	d := verifrt.IntRange(0, 21)
	got, err := hashBits(b).Slice(d*lg, lg)
	if (d+1)*lg > 64 {
		verifrt.Reach("too-deep")
		verifrt.Assert(err != nil, "too-deep-error")
		return
	}
	h := binary.BigEndian.Uint64(b)
	want := int(h>>uint(64-(d+1)*lg)) & (1<<uint(lg) - 1)
	verifrt.Assert(err == nil, "no-error")
	verifrt.Assert(got == want, "slice=spec")
	verifrt.Assert(got >= 0 && got < 1<<uint(lg), "in-range")
	verifrt.Reach("end")
}

// VerifLogTwo: logtwo accepts exactly the powers of two and returns the exponent.
func VerifLogTwo() {
	v := verifrt.Int()
	lg, err := logtwo(v)
	isPow := v > 0 && v&(v-1) == 0
	if !isPow {
		verifrt.Assert(err != nil, "rejects-non-power")
		verifrt.Reach("rejected")
		return
	}
	verifrt.Assert(err == nil, "accepts-power")
	verifrt.Assert(lg >= 0 && lg < 63 && 1<<uint(lg) == v, "exponent")
	verifrt.Reach("end")
}

// VerifFormatLinkName (K3): the builder's link-name prefix is the upper-hex bucket
// index, zero-padded to the number of hex digits of fanout-1, followed by the name —
// for every permitted fanout, every bucket index and every name.
func VerifFormatLinkName() {
	lg := 3 + verifrt.Choose(8)
	size := 1 << uint(lg)
	s := &shard{size: size, width: (lg + 3) / 4}
	idx := verifrt.IntRange(0, size-1)
	name := verifrt.String(verifrt.Choose(3))
	got := s.formatLinkName(name, idx)
	pad := (lg + 3) / 4
	verifrt.Assert(len(got) == pad+len(name), "format:length")
	ok := true
	for i := 0; i < pad; i++ {
		d := (idx >> uint(4*(pad-1-i))) & 0xf
		var want byte
		if d < 10 {
			want = byte('0' + d)
		} else {
			want = byte('A' + d - 10)
		}
		ok = verifrt.And(ok, got[i] == want)
	}
	for i := 0; i < len(name); i++ {
		ok = verifrt.And(ok, got[pad+i] == name[i])
	}
	verifrt.Assert(ok, "format:upper-hex-prefix+name")
	verifrt.Reach("end")
}
