package testutil

import (
	"io"
	"testing"
	"math/big"
	mrand "math/rand"
	"strings"

	unixfsnode "github.com/ipfs/go-unixfsnode"
	"github.com/ipfs/go-unixfsnode/internal/verifmodel"
	"github.com/ipfs/go-unixfsnode/internal/verifrt"
	dagpb "github.com/ipld/go-codec-dagpb"
	"github.com/ipld/go-ipld-prime"
	"github.com/ipld/go-ipld-prime/datamodel"
	"github.com/ipld/go-ipld-prime/linking"
	cidlink "github.com/ipld/go-ipld-prime/linking/cid"
	"github.com/ipld/go-ipld-prime/node/basicnode"
)

// stubT satisfies require.TestingT.
type stubT struct{ failed bool }

func (s *stubT) Errorf(format string, args ...interface{}) { s.failed = true }
func (s *stubT) FailNow()                                  { s.failed = true; panic("require failed") }

// symReader yields a non-repeating byte stream (file contents are irrelevant to
// the property; distinct contents keep the model hasher from forking on equality).
type symReader struct{ n *int }

func (s symReader) Read(p []byte) (int, error) {
	for i := range p {
		*s.n++
		p[i] = byte(*s.n*7 + *s.n>>8)
	}
	return len(p), nil
}

// scripted randomness: the first `free` draws of each kind are explorer-chosen,
// later draws take the value that ends the generator soonest.
type script struct {
	freeCoins, freeNames int
	nameSeq              int
}

func (s *script) install(targetSize int) {
	verifrt.Replace("crypto/rand.Int", func(r io.Reader, max *big.Int) (*big.Int, error) {
		m := int(max.Int64())
		if m <= 6 { // the generators' dice
			if s.freeCoins > 0 {
				s.freeCoins--
				return big.NewInt(int64(verifrt.Choose(3))), nil // 0: finish, 1: directory, 2: file
			}
			return big.NewInt(2), nil
		}
		// file size draw: largest admissible size
		return big.NewInt(int64(m - 1)), nil
	})
	pick := func(set []string) string {
		if s.freeNames > 0 {
			s.freeNames--
			return set[verifrt.Choose(len(set))]
		}
		s.nameSeq++
		return "u" + string(rune('a'+s.nameSeq/26)) + string(rune('a'+s.nameSeq%26))
	}
	verifrt.Replace("github.com/ipfs/go-unixfsnode/testutil/namegen.RandomDirectoryName", func(r io.Reader) (string, error) {
		return pick([]string{"a", "b"}), nil
	})
	verifrt.Replace("github.com/ipfs/go-unixfsnode/testutil/namegen.RandomFileName", func(r io.Reader) (string, error) {
		return pick([]string{"a", "a.txt", "b", "a.b"}), nil
	})
}

// readBack walks the stored DAG under root through Reify and checks it against the
// description.
func readBack(ls *ipld.LinkSystem, de DirEntry, isRoot bool) {
	lnk := cidlink.Link{Cid: de.Root}
	var proto datamodel.NodePrototype = dagpb.Type.PBNode
	if de.Root.Prefix().Codec != 0x70 {
		proto = basicnode.Prototype.Any
	}
	nd, err := ls.Load(ipld.LinkContext{}, lnk, proto)
	verifrt.Assert(err == nil, "fixture:root-loads")
	r, err := unixfsnode.Reify(ipld.LinkContext{}, nd, ls)
	verifrt.Assert(err == nil, "fixture:reifies")
	if r.Kind() == datamodel.Kind_Bytes {
		b, err := r.AsBytes()
		verifrt.Assert(err == nil && len(b) == len(de.Content) && verifrt.BytesEq(b, de.Content), "fixture:file-content=description")
		verifrt.Assert(len(de.Children) == 0, "fixture:file-has-no-children")
		return
	}
	verifrt.Assert(r.Length() == int64(len(de.Children)), "fixture:child-count=description")
	seen := map[string]bool{}
	for it := r.MapIterator(); !it.Done(); {
		k, v, err := it.Next()
		verifrt.Assert(err == nil, "fixture:iterates")
		name, _ := k.AsString()
		verifrt.Assert(name != "", "fixture:sibling-names-non-empty")
		verifrt.Assert(!seen[name], "fixture:sibling-names-unique")
		seen[name] = true
		l, _ := v.AsLink()
		var child *DirEntry
		for i := range de.Children {
			if de.Children[i].Path == de.Path+"/"+name {
				child = &de.Children[i]
			}
		}
		verifrt.Assert(child != nil, "fixture:entry-path=parent-path+name")
		if child != nil {
			if l.(cidlink.Link).Cid != child.Root && verifrt.Native() {
				dups := 0
				for i := range de.Children {
					if de.Children[i].Path == de.Path+"/"+name {
						dups++
					}
				}
				verifrt.Event("link mismatch at " + de.Path + "/" + name + " children-with-that-path=" + string(rune('0'+dups)))
			}
			verifrt.Assert(l.(cidlink.Link).Cid == child.Root, "fixture:entry-link=description")
			readBack(ls, *child, false)
		}
	}
}

// runGenerator runs generator `which` once and checks its description.
func runGenerator(which int, target int, rr io.Reader, shardedGD bool) {
	st := verifmodel.NewStore()
	ls := st.LinkSystem()
	var de DirEntry
	var err error
	t := &stubT{}
	switch which {
	case 0:
		de, err = UnixFSDirectory(*ls, target, WithRandReader(rr))
		verifrt.Reach("unixfs-directory")
	case 1:
		de, err = UnixFSDirectory(*ls, target, WithRandReader(rr), WithShardBitwidth(3))
	case 2:
		panicked, _ := verifrt.Catch(func() { de = GenerateDirectory(t, ls, rr, target, shardedGD) })
		if panicked {
			t.failed = true
		}
	case 3:
		// custom child generator: two files named by the generator's argument
		n := 0
		de, err = UnixFSDirectory(*ls, target, WithRandReader(rr), WithChildGenerator(func(name string) (*DirEntry, error) {
			if n == 2 {
				return nil, nil
			}
			n++
			f, err := UnixFSFile(*ls, 3, WithRandReader(rr))
			f.Path = name
			return &f, err
		}))
		verifrt.Reach("custom-generator")
	}
	verifrt.Assert(err == nil && !t.failed, "fixture:generator-ok")
	verifrt.Assert(de.Path == "", "fixture:root-path-empty")
	readBack(ls, de, true)
}

// VerifFixtureGenerators (C19).
func VerifFixtureGenerators() {
	target := verifrt.Param("target", 2048)
	which := verifrt.Choose(4)
	if verifrt.Native() {
		// the scripted draws cannot be imposed on the real crypto/rand + namegen code:
		// natively the real generators run over a range of pseudo-random streams, and any
		// failing stream confirms the violation
		for seed := 0; seed < verifrt.Param("nativeseeds", 300); seed++ {
			runGenerator(which, target, mrand.New(mrand.NewSource(int64(seed))), seed%2 == 1)
		}
		verifrt.Reach("end")
		return
	}
	(&script{freeCoins: verifrt.Param("freecoins", 2), freeNames: verifrt.Param("freenames", 2)}).install(target)
	shardedGD := false
	if which == 2 {
		shardedGD = verifrt.Choose(2) == 1
	}
	runGenerator(which, target, symReader{n: new(int)}, shardedGD)
	verifrt.Reach("end")
}

// dataEOFReader returns io.EOF together with the last bytes of r (as iotest.DataErrReader).
type dataEOFReader struct {
	r    io.Reader
	next []byte
	err  error
	init bool
}

func (d *dataEOFReader) fill() {
	buf := make([]byte, 2)
	n, err := d.r.Read(buf)
	d.next, d.err = buf[:n], err
	if n == 0 && err == nil {
		d.err = io.EOF
	}
}

func (d *dataEOFReader) Read(p []byte) (int, error) {
	if !d.init {
		d.init = true
		d.fill()
	}
	if len(d.next) == 0 {
		return 0, d.err
	}
	n := copy(p, d.next)
	d.next = d.next[n:]
	if len(d.next) == 0 && d.err == nil {
		d.fill()
		if len(d.next) == 0 {
			return n, d.err // the look-ahead found the end: report it with these bytes
		}
	}
	return n, nil
}

// VerifFixtureFile (C19): UnixFSFile and WrapContent describe what they stored.
func VerifFixtureFile() {
	st := verifmodel.NewStore()
	ls := st.LinkSystem()
	var rr io.Reader = symReader{n: new(int)}
	if verifrt.Native() {
		rr = mrand.New(mrand.NewSource(1))
	}
	size := verifrt.Choose(4)
	// the random source may run dry before `size` bytes were drawn: the fixture then
	// holds what there was, and says so
	avail := size
	switch verifrt.Choose(3) {
	case 1:
		avail = verifrt.Choose(size + 1)
		rr = io.LimitReader(rr, int64(avail))
		verifrt.Reach("short-source")
	case 2:
		// a source holding exactly `size` bytes that delivers its last bytes together with io.EOF
		rr = &dataEOFReader{r: io.LimitReader(rr, int64(size))}
		verifrt.Reach("eof-with-data")
	}
	de, err := UnixFSFile(*ls, size, WithRandReader(rr), WithChunker("size-2"))
	if avail < size && err != nil {
		verifrt.Reach("end") // refusing a source that ran dry is as good as describing what was stored
		return
	}
	verifrt.Assert(err == nil, "fixture:generator-ok")
	if avail == size {
		verifrt.Assert(len(de.Content) == size, "fixture:file-size")
	}
	readBack(ls, de, true)
	if avail < size {
		verifrt.Reach("end")
		return // (the wrapping below draws from the same, now empty, source)
	}
	// SelfCids are exactly the blocks written
	verifrt.Assert(len(de.SelfCids) == len(st.Blocks), "fixture:selfcids=blocks-written")
	t := &stubT{}
	wrapped := BuildDirectory(t, ls, []DirEntry{func() DirEntry { d := de; d.Path = "/x"; return d }()}, verifrt.Choose(2) == 1)
	verifrt.Assert(!t.failed, "fixture:generator-ok")
	readBack(ls, wrapped, true)
	verifrt.Reach("end")
}

// readBackByName is readBack for WrapContent's descriptions, whose entries carry their
// bare name (the last path element) rather than a full path: same names, links and
// contents at every level.
func readBackByName(ls *ipld.LinkSystem, de DirEntry) {
	lnk := cidlink.Link{Cid: de.Root}
	var proto datamodel.NodePrototype = dagpb.Type.PBNode
	if de.Root.Prefix().Codec != 0x70 {
		proto = basicnode.Prototype.Any
	}
	nd, err := ls.Load(ipld.LinkContext{}, lnk, proto)
	verifrt.Assert(err == nil, "fixture:root-loads")
	r, err := unixfsnode.Reify(ipld.LinkContext{}, nd, ls)
	verifrt.Assert(err == nil, "fixture:reifies")
	if r.Kind() == datamodel.Kind_Bytes {
		b, err := r.AsBytes()
		verifrt.Assert(err == nil && len(b) == len(de.Content) && verifrt.BytesEq(b, de.Content), "fixture:file-content=description")
		verifrt.Assert(len(de.Children) == 0, "fixture:file-has-no-children")
		return
	}
	verifrt.Assert(r.Length() == int64(len(de.Children)), "fixture:child-count=description")
	seen := map[string]bool{}
	for it := r.MapIterator(); !it.Done(); {
		k, v, err := it.Next()
		verifrt.Assert(err == nil, "fixture:iterates")
		name, _ := k.AsString()
		verifrt.Assert(name != "", "fixture:sibling-names-non-empty")
		verifrt.Assert(!seen[name], "fixture:sibling-names-unique")
		seen[name] = true
		l, _ := v.AsLink()
		var child *DirEntry
		for i := range de.Children {
			parts := strings.Split(de.Children[i].Path, "/")
			if parts[len(parts)-1] == name {
				child = &de.Children[i]
			}
		}
		verifrt.Assert(child != nil, "fixture:stored-entry-is-described")
		if child != nil {
			verifrt.Assert(l.(cidlink.Link).Cid == child.Root, "fixture:entry-link=description")
			readBackByName(ls, *child)
		}
	}
}

// VerifFixtureWrap (C19): WrapContent under a path of 1..3 segments, exclusive or
// with generated siblings before and after at every level, describes what it stored.
func VerifFixtureWrap() {
	st := verifmodel.NewStore()
	ls := st.LinkSystem()
	var rr io.Reader = symReader{n: new(int)}
	if verifrt.Native() {
		rr = mrand.New(mrand.NewSource(1))
	} else {
		(&script{}).install(0)
	}
	de, err := UnixFSFile(*ls, 1+verifrt.Choose(2), WithRandReader(rr), WithChunker("size-2"))
	verifrt.Assert(err == nil, "fixture:generator-ok")
	// (path rules of go-ipld-prime: leading, trailing and repeated slashes are ignored; a
	// path without segments wraps nothing)
	paths := []string{"a", "a/b", "/a/b/c/", "a//b", "", "/"}
	wp := paths[verifrt.Choose(len(paths))]
	exclusive := verifrt.Choose(2) == 1
	var wrapped DirEntry
	panicked, pv := verifrt.Catch(func() { wrapped = WrapContent(new(testing.T), rr, ls, de, wp, exclusive) })
	if panicked {
		verifrt.Event("WrapContent panicked: " + verifrt.PanicValueString(pv))
	}
	verifrt.Assert(!panicked, "fixture:wrap-generator-ok")
	readBackByName(ls, wrapped)
	// the wanted content is reachable under the path, with its bytes
	cur := wrapped
	var segs []string
	for _, seg := range strings.Split(wp, "/") {
		if seg != "" {
			segs = append(segs, seg)
		}
	}
	if len(segs) == 0 {
		verifrt.Reach("empty-path")
	}
	for _, seg := range segs {
		var next *DirEntry
		for i := range cur.Children {
			if cur.Children[i].Path == seg {
				next = &cur.Children[i]
			}
		}
		verifrt.Assert(next != nil, "fixture:wrap-path-described")
		if next == nil {
			verifrt.Stop()
		}
		cur = *next
	}
	verifrt.Assert(cur.Root == de.Root, "fixture:wrapped-content-at-path")
	if !exclusive {
		verifrt.Reach("with-siblings")
	}
	verifrt.Reach("end")
}

var _ = strings.Split
var _ linking.LinkSystem
