package test

import (
	chunk "github.com/ipfs/boxo/chunker"
	mrand "math/rand"
	"sort"
	"io"
	"bytes"
	"strconv"

	"github.com/ipfs/go-unixfsnode/data"
	"github.com/ipfs/go-unixfsnode/data/builder"
	"github.com/ipfs/go-unixfsnode/internal/verifmodel"
	"github.com/ipfs/go-unixfsnode/internal/verifrt"
	dagpb "github.com/ipld/go-codec-dagpb"
	"github.com/ipld/go-ipld-prime"
	"github.com/ipld/go-ipld-prime/datamodel"
	cidlink "github.com/ipld/go-ipld-prime/linking/cid"
)

// refNode is the reference balanced tree (DESIGN Appendix B): what boxo's
// importer/balanced.Layout builds for n chunks at Maxlinks=w with raw leaves.
type refNode struct {
	leaf     int // chunk index, or -1 for an interior node
	children []*refNode
}

func refT(h int, lo, hi, w int) *refNode {
	if h == 0 {
		return &refNode{leaf: lo}
	}
	span := 1
	for i := 0; i < h-1; i++ {
		span *= w
	}
	n := &refNode{leaf: -1}
	for s := lo; s < hi; s += span {
		e := s + span
		if e > hi {
			e = hi
		}
		n.children = append(n.children, refT(h-1, s, e, w))
	}
	return n
}

func refBalanced(n, w int) *refNode {
	if n == 1 {
		return &refNode{leaf: 0}
	}
	d, cap := 0, 1
	for cap < n {
		cap *= w
		d++
	}
	return refT(d, 0, n, w)
}

type walkResult struct {
	bytes  uint64 // content bytes beneath
	stored uint64 // cumulative encoded size (tree sum)
}

// matchTree checks the stored DAG under lnk against the reference tree and the
// size laws (C07 shape, C11 sizes).
func matchTree(st *verifmodel.Store, ls *ipld.LinkSystem, lnk datamodel.Link, ref *refNode, chunks [][]byte) walkResult {
	cl, ok := lnk.(cidlink.Link)
	verifrt.Assert(ok, "shape:cid-link")
	pfx := cl.Cid.Prefix()
	verifrt.Assert(pfx.Version == 1 && pfx.MhType == 0x12 && pfx.MhLength == 32, "shape:cidv1-sha256")
	blk, ok := st.Get(lnk.Binary())
	verifrt.Assert(ok, "shape:block-stored")
	if ref.leaf >= 0 {
		verifrt.Assert(pfx.Codec == 0x55, "shape:leaf-is-raw")
		verifrt.Assert(len(blk) == len(chunks[ref.leaf]) && verifrt.BytesEq(blk, chunks[ref.leaf]), "shape:leaf=chunk")
		return walkResult{bytes: uint64(len(blk)), stored: uint64(len(blk))}
	}
	verifrt.Assert(pfx.Codec == 0x70, "shape:interior-is-dagpb")
	nd, err := ls.Load(ipld.LinkContext{}, lnk, dagpb.Type.PBNode)
	verifrt.Assert(err == nil, "shape:interior-decodes")
	pbn := nd.(dagpb.PBNode)
	verifrt.Assert(pbn.FieldData().Exists(), "shape:has-data")
	ufd, err := data.DecodeUnixFSData(pbn.FieldData().Must().Bytes())
	verifrt.Assert(err == nil, "shape:data-decodes")
	verifrt.Assert(ufd.FieldDataType().Int() == data.Data_File, "shape:type-file")
	verifrt.Assert(!ufd.FieldData().Exists() && !ufd.FieldHashType().Exists() && !ufd.FieldFanout().Exists() && !ufd.FieldMode().Exists() && !ufd.FieldMtime().Exists(), "shape:no-extra-fields")
	links := pbn.FieldLinks()
	verifrt.Assert(links.Length() == int64(len(ref.children)), "shape:child-count")
	verifrt.Assert(ufd.FieldBlockSizes().Length() == int64(len(ref.children)), "size:blocksizes-count")
	var res walkResult
	for i, c := range ref.children {
		l := links.Lookup(int64(i))
		verifrt.Assert(l.FieldName().Exists() && l.FieldName().Must().String() == "", "shape:unnamed-link")
		sub := matchTree(st, ls, l.FieldHash().Link(), c, chunks)
		verifrt.Assert(l.FieldTsize().Exists() && uint64(l.FieldTsize().Must().Int()) == sub.stored, "size:tsize=cumulative")
		bs, err := ufd.FieldBlockSizes().LookupByIndex(int64(i))
		verifrt.Assert(err == nil, "size:blocksize-present")
		bsv, _ := bs.AsInt()
		verifrt.Assert(uint64(bsv) == sub.bytes, "size:blocksize=bytes-beneath")
		res.bytes += sub.bytes
		res.stored += sub.stored
	}
	verifrt.Assert(ufd.FieldFileSize().Exists() && uint64(ufd.FieldFileSize().Must().Int()) == res.bytes, "size:filesize=bytes-beneath")
	res.stored += uint64(len(blk))
	return res
}

// VerifFileStructure (C07, C11): for every chunk count n <= maxn at width w the
// stored DAG is the reference balanced tree (node kinds, child lists, link order,
// FileSize, BlockSizes, Tsize) and the returned size is the cumulative size.
func VerifFileStructure() {
	w := verifrt.Param("w", 2)
	K := verifrt.Param("k", 1)
	maxN := verifrt.Param("maxn", 5)
	minN := verifrt.Param("minn", 0)
	old := builder.DefaultLinksPerBlock
	builder.DefaultLinksPerBlock = w
	defer func() { builder.DefaultLinksPerBlock = old }()

	n := minN + verifrt.Choose(maxN-minN+1)
	// last chunk may be short: length in 1..K
	L := n * K
	if n > 0 && K > 1 {
		L -= verifrt.Choose(K)
	}
	chunker := "size-" + strconv.Itoa(K)
	var content []byte
	var chunks [][]byte
	if verifrt.Param("varchunks", 0) == 1 && n > 0 {
		// ANY splitter: the content is cut into n chunks of explorer-chosen sizes 1..3 (what a
		// content-defined chunker does); chunks of equal size may or may not be equal
		sizes := make([]int, n)
		L = 0
		for i := range sizes {
			sizes[i] = 1 + verifrt.Choose(3)
			L += sizes[i]
		}
		content = verifrt.Bytes(L)
		at := 0
		for _, sz := range sizes {
			chunks = append(chunks, content[at:at+sz])
			at += sz
		}
		if verifrt.Native() {
			// the same size / equality pattern realised with the real rabin chunker
			content, chunks, chunker = realiseWithRabin(chunks)
			L = len(content)
		} else {
			verifrt.Replace("github.com/ipfs/boxo/chunker.FromString", func(r io.Reader, _ string) (chunk.Splitter, error) {
				return &modelSplitter{r: r, sizes: sizes}, nil
			})
		}
		verifrt.Reach("variable-chunks")
	} else {
		content = verifrt.Bytes(L)
		if verifrt.Param("distinct", 1) == 1 {
			assumeDistinctChunks(content, K)
		}
		for i := 0; i < L; i += K {
			chunks = append(chunks, content[i:min(L, i+K)])
		}
	}
	st := verifmodel.NewStore()
	ls := st.LinkSystem()
	lnk, size, err := builder.BuildUnixFSFile(bytes.NewReader(content), chunker, ls)
	verifrt.Assert(err == nil && lnk != nil, "build-ok")
	if n == 0 {
		blk, ok := st.Get(lnk.Binary())
		verifrt.Assert(ok && len(blk) == 0 && size == 0, "shape:empty-file")
		verifrt.Assert(lnk.(cidlink.Link).Cid.Prefix().Codec == 0x55, "shape:empty-file-raw")
		verifrt.Reach("empty")
		verifrt.Reach("end")
		return
	}
	res := matchTree(st, ls, lnk, refBalanced(n, w), chunks)
	verifrt.Assert(size == res.stored, "size:returned=cumulative")
	verifrt.Assert(res.bytes == uint64(L), "size:total-bytes")
	verifrt.Reach("end")
}

// modelSplitter cuts its input at the given sizes (stands for any chunker).
type modelSplitter struct {
	r     io.Reader
	sizes []int
	i     int
}

func (m *modelSplitter) Reader() io.Reader { return m.r }
func (m *modelSplitter) NextBytes() ([]byte, error) {
	if m.i >= len(m.sizes) {
		return nil, io.EOF
	}
	b := make([]byte, m.sizes[m.i])
	m.i++
	if _, err := io.ReadFull(m.r, b); err != nil {
		return nil, err
	}
	return b, nil
}

// realiseWithRabin (native replay only) builds real content that the real
// "rabin-16-32-64" chunker cuts into chunks with the same pattern of sizes and
// equalities as `model`: a library of chunks is harvested from the chunker's own output
// over pseudo-random data (the rolling hash restarts at every cut, so a harvested chunk is
// cut again at its end wherever it is placed); the three model sizes are mapped to the
// three most frequent real lengths.
func realiseWithRabin(model [][]byte) ([]byte, [][]byte, string) {
	const spec = "rabin-16-32-64"
	rng := mrand.New(mrand.NewSource(7))
	data := make([]byte, 1<<16)
	rng.Read(data)
	sp, err := chunk.FromString(bytes.NewReader(data), spec)
	verifrt.Assert(err == nil, "harness:rabin")
	lib := map[int][][]byte{}
	for {
		c, err := sp.NextBytes()
		if err != nil {
			break
		}
		lib[len(c)] = append(lib[len(c)], append([]byte{}, c...))
	}
	// real lengths with enough distinct chunks, most frequent first
	var lens []int
	for l, cs := range lib {
		if len(cs) >= len(model) && l < 64 {
			lens = append(lens, l)
		}
	}
	sort.Slice(lens, func(i, j int) bool {
		if len(lib[lens[i]]) != len(lib[lens[j]]) {
			return len(lib[lens[i]]) > len(lib[lens[j]])
		}
		return lens[i] < lens[j]
	})
	verifrt.Assert(len(lens) >= 3, "harness:rabin-library")
	var content []byte
	var chunks [][]byte
	used := map[int]int{}
	for i, m := range model {
		l := lens[len(m)-1]
		var pick []byte
		for j := 0; j < i; j++ {
			if bytes.Equal(model[j], m) {
				pick = chunks[j]
			}
		}
		if pick == nil {
			pick = lib[l][used[l]]
			used[l]++
		}
		chunks = append(chunks, pick)
		content = append(content, pick...)
	}
	// the real chunker must cut the assembled content exactly there
	sp, _ = chunk.FromString(bytes.NewReader(content), spec)
	for i := 0; ; i++ {
		c, err := sp.NextBytes()
		if err != nil {
			verifrt.Assert(i == len(chunks), "harness:rabin-cuts-as-assembled")
			break
		}
		verifrt.Assert(i < len(chunks) && bytes.Equal(c, chunks[i]), "harness:rabin-cuts-as-assembled")
	}
	return content, chunks, spec
}
