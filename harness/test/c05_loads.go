package test

import (
	"github.com/ipld/go-ipld-prime/linking"
	"github.com/ipld/go-ipld-prime/node/basicnode"
	cidlink "github.com/ipld/go-ipld-prime/linking/cid"
	"github.com/ipfs/go-cid"
	"bytes"
	"errors"
	"io"
	"strconv"

	unixfsnode "github.com/ipfs/go-unixfsnode"
	"github.com/ipfs/go-unixfsnode/data/builder"
	"github.com/ipfs/go-unixfsnode/file"
	"github.com/ipfs/go-unixfsnode/internal/verifmodel"
	"github.com/ipfs/go-unixfsnode/internal/verifrt"
	dagpb "github.com/ipld/go-codec-dagpb"
	"github.com/ipld/go-ipld-prime"
	"github.com/ipld/go-ipld-prime/datamodel"
)

type blockInfo struct {
	key    string
	lo, hi int // byte span [lo,hi) of the content beneath this block
	leaf   bool
	depth  int
}

// dfsBlocks walks the stored DAG depth-first in link order (independent of the
// reader under test) and returns every block with its content span.
func dfsBlocks(st *verifmodel.Store, ls *ipld.LinkSystem, lnk datamodel.Link, at int, depth int, out *[]blockInfo) int {
	idx := len(*out)
	*out = append(*out, blockInfo{key: lnk.Binary(), lo: at, depth: depth})
	if protoFor(lnk) != dagpb.Type.PBNode {
		blk, _ := st.Get(lnk.Binary())
		(*out)[idx].leaf = true
		(*out)[idx].hi = at + len(blk)
		return at + len(blk)
	}
	nd, err := ls.Load(ipld.LinkContext{}, lnk, dagpb.Type.PBNode)
	verifrt.Assert(err == nil, "walk:decode")
	links := nd.(dagpb.PBNode).FieldLinks()
	pos := at
	for i := int64(0); i < links.Length(); i++ {
		pos = dfsBlocks(st, ls, links.Lookup(i).FieldHash().Link(), pos, depth+1, out)
	}
	(*out)[idx].hi = pos
	return pos
}

type builtFile struct {
	st      *verifmodel.Store
	ls      *ipld.LinkSystem
	lnk     datamodel.Link
	content []byte
	blocks  []blockInfo // DFS order, blocks[0] is the root
	restore func()
}

func buildFileFor(w, K, L int) *builtFile {
	old := builder.DefaultLinksPerBlock
	builder.DefaultLinksPerBlock = w
	content := verifrt.Bytes(L)
	assumeDistinctChunks(content, K)
	st := verifmodel.NewStore()
	ls := st.LinkSystem()
	// (the link system already carries another ADL's reifier when UnixFS is added: the
	// registration must not depend on being the first)
	ls.KnownReifiers = map[string]linking.NodeReifier{"other-adl": func(_ linking.LinkContext, n datamodel.Node, _ *linking.LinkSystem) (datamodel.Node, error) { return n, nil }}
	unixfsnode.AddUnixFSReificationToLinkSystem(ls)
	lnk, _, err := builder.BuildUnixFSFile(bytes.NewReader(content), "size-"+strconv.Itoa(K), ls)
	verifrt.Assert(err == nil, "build-ok")
	bf := &builtFile{st: st, ls: ls, lnk: lnk, content: content, restore: func() { builder.DefaultLinksPerBlock = old }}
	dfsBlocks(st, ls, lnk, 0, 0, &bf.blocks)
	st.Loads = nil
	return bf
}

func loadedSet(st *verifmodel.Store) map[string]int {
	m := map[string]int{}
	for _, k := range st.Loads {
		m[k]++
	}
	return m
}

func firstRequests(st *verifmodel.Store) []string {
	seen := map[string]bool{}
	var out []string
	for _, k := range st.Loads {
		if !seen[k] {
			seen[k] = true
			out = append(out, k)
		}
	}
	return out
}

// VerifFileRangeLoads (C05): Seek(a)+ReadFull(b-a) through the lazy view fetches
// exactly the blocks whose span meets [a,b) plus their ancestors, nothing else.
func VerifFileRangeLoads() {
	w := verifrt.Param("w", 2)
	K := verifrt.Param("k", 2)
	maxL := verifrt.Param("maxlen", 6)
	L := 1 + verifrt.Choose(maxL)
	bf := buildFileFor(w, K, L)
	defer bf.restore()
	root, err := bf.ls.Load(ipld.LinkContext{}, bf.lnk, protoFor(bf.lnk))
	verifrt.Assert(err == nil, "root-loads")
	var node datamodel.Node
	if verifrt.Choose(2) == 0 {
		node, err = unixfsnode.Reify(ipld.LinkContext{}, root, bf.ls)
	} else {
		node, err = bf.ls.KnownReifiers["unixfs"](ipld.LinkContext{}, root, bf.ls)
	}
	verifrt.Assert(err == nil, "reify-ok")
	lb, ok := node.(file.LargeBytesNode)
	if !ok {
		// single raw block: nothing further can be fetched
		verifrt.Assert(len(bf.blocks) == 1, "plain-node-only-for-single-block")
		verifrt.Reach("single-block")
		verifrt.Reach("end")
		return
	}
	bf.st.Loads = nil
	rs, err := lb.AsLargeBytes()
	verifrt.Assert(err == nil, "aslargebytes-ok")
	// `ranges` ranges are read one after the other through the SAME reader (a Seek
	// between them, in either direction): what is fetched is what the ranges need
	neededKey := map[string]bool{}
	for r := 0; r < verifrt.Param("ranges", 1); r++ {
		a := verifrt.IntRange(0, L-1)
		b := verifrt.IntRange(1, L)
		verifrt.Assume(a < b)
		whence, off := io.SeekStart, int64(a)
		if r > 0 && verifrt.Choose(2) == 1 {
			cur, err := rs.Seek(0, io.SeekCurrent)
			verifrt.Assert(err == nil, "seek-ok")
			whence, off = io.SeekCurrent, int64(a)-cur
		}
		pos, err := rs.Seek(off, whence)
		verifrt.Assert(err == nil && pos == int64(a), "seek-ok")
		n := verifrt.Concrete(b - a)
		buf := make([]byte, n)
		got, err := io.ReadFull(rs, buf)
		verifrt.Assert(err == nil && got == n, "readfull-ok")
		ca := verifrt.Concrete(a)
		verifrt.Assert(verifrt.BytesEq(buf, bf.content[ca:ca+n]), "range-bytes")
		for i, blk := range bf.blocks {
			if i > 0 && blk.lo < ca+n && ca < blk.hi {
				neededKey[blk.key] = true
			}
		}
		if r > 0 {
			verifrt.Reach("second-range")
		}
	}
	loaded := loadedSet(bf.st)
	// (by key: with repeated chunks one block sits at several positions)
	for i, blk := range bf.blocks {
		if i == 0 {
			if !neededKey[blk.key] {
				verifrt.Assert(loaded[blk.key] == 0, "root-not-refetched")
			}
			continue
		}
		if neededKey[blk.key] {
			verifrt.Assert(loaded[blk.key] >= 1, "needed-block-fetched")
		} else {
			verifrt.Assert(loaded[blk.key] == 0, "unneeded-block-not-fetched")
		}
	}
	verifrt.Assert(len(loaded) <= len(bf.blocks)-1, "no-foreign-block-fetched")
	verifrt.Reach("end")
}

// VerifFileFullReadOrder (C20, C06): a full sequential read through the lazy view,
// and preload reification, request every block of the file exactly once in
// depth-first link order; preload fetches nothing else.
func VerifFileFullReadOrder() {
	w := verifrt.Param("w", 2)
	K := verifrt.Param("k", 1)
	maxL := verifrt.Param("maxlen", 6)
	L := verifrt.Choose(maxL + 1)
	bf := buildFileFor(w, K, L)
	defer bf.restore()
	root, err := bf.ls.Load(ipld.LinkContext{}, bf.lnk, protoFor(bf.lnk))
	verifrt.Assert(err == nil, "root-loads")
	bf.st.Loads = nil
	mode := verifrt.Choose(3)
	switch mode {
	case 0: // lazy view, streamed read
		node, err := unixfsnode.Reify(ipld.LinkContext{}, root, bf.ls)
		verifrt.Assert(err == nil, "reify-ok")
		verifrt.Assert(len(bf.st.Loads) == 0, "lazy-reify-fetches-nothing")
		all, err := node.AsBytes()
		verifrt.Assert(err == nil && verifrt.BytesEq(all, bf.content), "full-read")
	case 1: // preload reifier
		node, err := bf.ls.KnownReifiers["unixfs-preload"](ipld.LinkContext{}, root, bf.ls)
		verifrt.Assert(err == nil && node != nil, "preload-ok")
		verifrt.Reach("preload")
	case 2: // direct preload constructor
		node, err := file.NewUnixFSFileWithPreload(nil, root, bf.ls)
		verifrt.Assert(err == nil && node != nil, "preload-ok")
	}
	first := firstRequests(bf.st)
	// the distinct blocks below the root, in depth-first link order of their first
	// occurrence (with repeated chunks one block sits at several positions)
	var want []string
	seen := map[string]bool{bf.blocks[0].key: true}
	for _, blk := range bf.blocks[1:] {
		if !seen[blk.key] {
			seen[blk.key] = true
			want = append(want, blk.key)
		}
	}
	verifrt.Assert(len(first) == len(want), "order:every-block-requested")
	for i := 0; i < len(want) && i < len(first); i++ {
		verifrt.Assert(first[i] == want[i], "order:depth-first-link-order")
	}
	// (how often a block is requested is not part of any property: only which blocks,
	// and the order of their first requests)
	if len(want) < len(bf.blocks)-1 {
		verifrt.Reach("repeated-block")
	}
	verifrt.Reach("end")
}

var errIO = errors.New("harness: arbitrary I/O error")

// loadFailure picks the error an unavailable block is reported with: not-found, an
// arbitrary I/O error, or the sentinel a store returns for a truncated block file
// (which readers built on io.ReadFull are prone to mistake for the end of their input).
func loadFailure() error {
	switch verifrt.Choose(3) {
	case 0:
		return verifmodel.ErrNotFound
	case 1:
		return errIO
	}
	return io.ErrUnexpectedEOF
}

// VerifFileMissingBlock (C12, C06): with one block of the file unavailable (every
// block in turn; not-found or arbitrary error), a sequential read returns exactly
// the bytes that precede the missing block's span and then a non-EOF error;
// AsBytes and the preload reifier report an error.
func VerifFileMissingBlock() {
	w := verifrt.Param("w", 2)
	K := verifrt.Param("k", 1)
	maxL := verifrt.Param("maxlen", 5)
	L := 2 + verifrt.Choose(maxL-1)
	bf := buildFileFor(w, K, L)
	defer bf.restore()
	root, err := bf.ls.Load(ipld.LinkContext{}, bf.lnk, protoFor(bf.lnk))
	verifrt.Assert(err == nil, "root-loads")
	if len(bf.blocks) < 2 {
		verifrt.Reach("end")
		return
	}
	m := 1 + verifrt.Choose(len(bf.blocks)-1) // index (DFS order) of the missing block
	injected := loadFailure()
	miss := bf.blocks[m]
	// with repeated chunks the missing block may sit at an earlier position too
	for _, blk := range bf.blocks[1:m] {
		if blk.key == miss.key {
			miss = blk
			break
		}
	}
	bf.st.FailLoad = func(key string, nth int) error {
		if key == miss.key {
			return injected
		}
		return nil
	}
	mode := verifrt.Choose(3)
	switch mode {
	case 0:
		node, err := file.NewUnixFSFile(nil, root, bf.ls)
		verifrt.Assert(err == nil, "open-ok")
		rs, _ := node.AsLargeBytes()
		bs := 1 + verifrt.Choose(2)
		buf := make([]byte, bs)
		var got []byte
		var rerr error
		for iter := 0; ; iter++ {
			verifrt.Assert(iter <= L+2, "read-terminates")
			n, err := rs.Read(buf)
			got = append(got, buf[:n]...)
			if err != nil {
				rerr = err
				break
			}
		}
		verifrt.Assert(rerr != io.EOF, "fault:never-eof")
		verifrt.Assert(errors.Is(rerr, injected), "fault:load-error-reported")
		verifrt.Assert(len(got) == miss.lo && verifrt.BytesEq(got, bf.content[:miss.lo]), "fault:exact-prefix-before-missing-span")
	case 1:
		node, err := unixfsnode.Reify(ipld.LinkContext{}, root, bf.ls)
		verifrt.Assert(err == nil, "reify-ok")
		_, err = node.AsBytes()
		verifrt.Assert(err != nil && err != io.EOF, "fault:asbytes-errors")
	case 2:
		node, err := bf.ls.KnownReifiers["unixfs-preload"](ipld.LinkContext{}, root, bf.ls)
		verifrt.Assert(err != nil, "fault:preload-errors")
		verifrt.Assert(node == nil, "fault:preload-no-partial-node")
	}
	verifrt.Reach("end")
}

// VerifFileKthLoadFails (C12): the k-th load request fails (k symbolic): a
// sequential read returns exactly the bytes before the span of the block whose
// load failed, then the injected error.
func VerifFileKthLoadFails() {
	w := verifrt.Param("w", 2)
	K := verifrt.Param("k", 1)
	maxL := verifrt.Param("maxlen", 5)
	L := 2 + verifrt.Choose(maxL-1)
	bf := buildFileFor(w, K, L)
	defer bf.restore()
	root, err := bf.ls.Load(ipld.LinkContext{}, bf.lnk, protoFor(bf.lnk))
	verifrt.Assert(err == nil, "root-loads")
	bf.st.Loads = nil
	kth := verifrt.IntRange(0, len(bf.blocks)-2)
	failedKey := ""
	kthErr := errIO
	if verifrt.Choose(2) == 1 {
		kthErr = io.ErrUnexpectedEOF
	}
	bf.st.FailLoad = func(key string, nth int) error {
		if nth == kth {
			failedKey = key
			return kthErr
		}
		return nil
	}
	node, err := file.NewUnixFSFile(nil, root, bf.ls)
	verifrt.Assert(err == nil, "open-ok")
	rs, _ := node.AsLargeBytes()
	// optionally start from a seek into the file (the one-time failure may then hit the
	// load that the fast-forward into a child triggers)
	a := 0
	if verifrt.Param("seek", 1) == 1 {
		a = verifrt.Choose(L + 1)
		pos, err := rs.Seek(int64(a), io.SeekStart)
		verifrt.Assert(err == nil && pos == int64(a), "seek-ok")
	}
	buf := make([]byte, 1+verifrt.Choose(2))
	var got []byte
	var rerr error
	for iter := 0; ; iter++ {
		verifrt.Assert(iter <= L+2, "read-terminates")
		n, err := rs.Read(buf)
		got = append(got, buf[:n]...)
		if err != nil {
			rerr = err
			break
		}
	}
	// whatever happened, no wrong byte is ever delivered
	verifrt.Assert(len(got) <= L-a && verifrt.BytesEq(got, bf.content[a:a+len(got)]), "fault:never-wrong-bytes")
	if failedKey == "" {
		// the failing request index was never reached: a clean read of the remainder
		verifrt.Assert(rerr == io.EOF && len(got) == L-a, "clean-read")
		verifrt.Reach("end")
		return
	}
	verifrt.Assert(errors.Is(rerr, kthErr), "fault:load-error-reported")
	if a > 0 {
		verifrt.Reach("end")
		return
	}
	verifrt.Reach("end")
}

// VerifHandBuiltReadOrder (C20): file DAGs as another writer may leave them — correct
// FileSize and BlockSizes, raw leaves whose links carry an exact or skewed (+1) Tsize
// (Tsize is advisory) — are requested in depth-first link order by a full
// sequential read and by preload.
func VerifHandBuiltReadOrder() {
	st := verifmodel.NewStore()
	ls := st.LinkSystem()
	// (the link system already carries another ADL's reifier when UnixFS is added: the
	// registration must not depend on being the first)
	ls.KnownReifiers = map[string]linking.NodeReifier{"other-adl": func(_ linking.LinkContext, n datamodel.Node, _ *linking.LinkSystem) (datamodel.Node, error) { return n, nil }}
	unixfsnode.AddUnixFSReificationToLinkSystem(ls)
	next := byte('a')
	var order []string // expected first-request order below the root
	rawLink := func() (pbLinkSpec, uint64) {
		c := []byte{next, next + 1}
		next += 2
		l := storeRaw(ls, c)
		if verifrt.Choose(2) == 1 {
			// a leaf under an identity-multihash CID ("inlined" block, as `ipfs add --inline`
			// writes small chunks): still a block the link system is asked for
			il, err := ls.Store(ipld.LinkContext{}, cidlink.LinkPrototype{Prefix: cid.Prefix{Version: 1, Codec: 0x55, MhType: 0x00, MhLength: -1}}, basicnode.NewBytes(c))
			verifrt.Assert(err == nil, "harness:store-identity")
			l = il
			verifrt.Reach("identity-cid-leaf")
		}
		s := pbLinkSpec{hash: l, hasName: true, name: ""}
		// (a raw link without any Tsize is refused by the reader with an error — legal
		// for every property, and no reference writer omits it — so it is not generated)
		s.hasTsize, s.tsize = true, 2
		switch verifrt.Choose(3) {
		case 1:
			s.tsize = 3 // overstated
			verifrt.Reach("skewed-tsize")
		case 2:
			s.tsize = 1 // understated (but not zero)
			verifrt.Reach("skewed-tsize")
		}
		return s, 2
	}
	fileNode := func(links []pbLinkSpec, sizes []uint64) datamodel.Link {
		var total uint64
		for _, s := range sizes {
			total += s
		}
		d := pbField(pbField(nil, 1, 2), 3, total)
		for _, s := range sizes {
			d = pbField(d, 4, s)
		}
		return storeNode(ls, mkPBNode(true, d, links))
	}
	var rootLinks []pbLinkSpec
	var rootSizes []uint64
	want := 0
	if verifrt.Choose(2) == 0 { // flat: three raw leaves
		for i := 0; i < 3; i++ {
			l, n := rawLink()
			rootLinks, rootSizes = append(rootLinks, l), append(rootSizes, n)
			order = append(order, l.hash.Binary())
			want++
		}
	} else { // an interior child over two raw leaves, then a raw leaf
		var il []pbLinkSpec
		var is []uint64
		var keys []string
		for i := 0; i < 2; i++ {
			l, n := rawLink()
			il, is = append(il, l), append(is, n)
			keys = append(keys, l.hash.Binary())
		}
		a := fileNode(il, is)
		rootLinks = append(rootLinks, pbLinkSpec{hash: a, hasName: true, name: "", hasTsize: true, tsize: 40})
		rootSizes = append(rootSizes, 4)
		order = append(append(order, a.Binary()), keys...)
		l, n := rawLink()
		rootLinks, rootSizes = append(rootLinks, l), append(rootSizes, n)
		order = append(order, l.hash.Binary())
		want = 3
		verifrt.Reach("two-levels")
	}
	lnk := fileNode(rootLinks, rootSizes)
	root, err := ls.Load(ipld.LinkContext{}, lnk, protoFor(lnk))
	verifrt.Assert(err == nil, "root-loads")
	st.Loads = nil
	if verifrt.Choose(2) == 0 {
		node, err := unixfsnode.Reify(ipld.LinkContext{}, root, ls)
		verifrt.Assert(err == nil, "reify-ok")
		all, err := node.AsBytes()
		verifrt.Assert(err == nil && len(all) == 2*want, "full-read")
	} else {
		node, err := ls.KnownReifiers["unixfs-preload"](ipld.LinkContext{}, root, ls)
		verifrt.Assert(err == nil && node != nil, "preload-ok")
		verifrt.Reach("preload")
	}
	first := firstRequests(st)
	verifrt.Assert(len(first) == len(order), "order:every-block-requested")
	for i := range order {
		if i < len(first) {
			verifrt.Assert(first[i] == order[i], "order:depth-first-link-order")
		}
	}
	verifrt.Reach("end")
}
