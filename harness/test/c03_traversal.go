package test

import (
	"bytes"

	unixfsnode "github.com/ipfs/go-unixfsnode"
	"github.com/ipfs/go-unixfsnode/data/builder"
	"github.com/ipfs/go-unixfsnode/hamt"
	"github.com/ipfs/go-unixfsnode/internal/verifmodel"
	"github.com/ipfs/go-unixfsnode/internal/verifrt"
	dagpb "github.com/ipld/go-codec-dagpb"
	"github.com/ipld/go-ipld-prime"
	"github.com/ipld/go-ipld-prime/datamodel"
	"github.com/ipld/go-ipld-prime/linking"
	"github.com/ipld/go-ipld-prime/traversal"
	"github.com/ipld/go-ipld-prime/traversal/selector"
	selbuilder "github.com/ipld/go-ipld-prime/traversal/selector/builder"
)

type travTree struct {
	st   *verifmodel.Store
	ls   *ipld.LinkSystem
	root datamodel.Link
	// expectations
	fileA    []byte
	fileB    []byte
	keyRoot  string
	keyA     string   // root block of multi-block file "a"
	keysA    []string // all blocks of "a" in DFS order
	keyD     string
	keyB     string
	keyH     string
	keysH    []string // shard blocks of "h" beyond its root
	hEntries []string
}

// buildTravTree: root dir { "a": 3-chunk file, "d": dir { "b": 1-chunk file }, "h": HAMT dir {x0..x3} }.
func buildTravTree() *travTree {
	old := builder.DefaultLinksPerBlock
	builder.DefaultLinksPerBlock = 2
	defer func() { builder.DefaultLinksPerBlock = old }()
	st := verifmodel.NewStore()
	ls := st.LinkSystem()
	unixfsnode.AddUnixFSReificationToLinkSystem(ls)
	t := &travTree{st: st, ls: ls}
	t.fileA = verifrt.Bytes(3)
	assumeDistinctChunks(t.fileA, 1)
	t.fileB = verifrt.Bytes(1)
	verifrt.Assume(t.fileB[0] != t.fileA[0] && t.fileB[0] != t.fileA[1] && t.fileB[0] != t.fileA[2])
	la, sa, err := builder.BuildUnixFSFile(bytes.NewReader(t.fileA), "size-1", ls)
	verifrt.Assert(err == nil, "harness:build")
	lb, sb, err := builder.BuildUnixFSFile(bytes.NewReader(t.fileB), "size-1", ls)
	verifrt.Assert(err == nil, "harness:build")
	eb, _ := builder.BuildUnixFSDirectoryEntry("b", int64(sb), lb)
	ld, sd, err := builder.BuildUnixFSDirectory([]dagpb.PBLink{eb}, ls)
	verifrt.Assert(err == nil, "harness:build")
	var hl []dagpb.PBLink
	for i := 0; i < 4; i++ {
		name := "x" + string(rune('0'+i))
		target := fakeLink(60 + i)
		if i == 3 {
			name = "7" // a name that parses as an integer, pointing at the stored file b
			target = lb
		}
		t.hEntries = append(t.hEntries, name)
		e, _ := builder.BuildUnixFSDirectoryEntry(name, 1, target)
		hl = append(hl, e)
	}
	lh, sh, err := builder.BuildUnixFSShardedDirectory(8, hamt.HashMurmur3, hl, ls)
	verifrt.Assert(err == nil, "harness:build")
	ea, _ := builder.BuildUnixFSDirectoryEntry("a", int64(sa), la)
	ed, _ := builder.BuildUnixFSDirectoryEntry("d", int64(sd), ld)
	eh, _ := builder.BuildUnixFSDirectoryEntry("h", int64(sh), lh)
	lr, _, err := builder.BuildUnixFSDirectory([]dagpb.PBLink{ea, ed, eh}, ls)
	verifrt.Assert(err == nil, "harness:build")
	t.root = lr
	t.keyRoot, t.keyA, t.keyD, t.keyB, t.keyH = lr.Binary(), la.Binary(), ld.Binary(), lb.Binary(), lh.Binary()
	var blocks []blockInfo
	dfsBlocks(st, ls, la, 0, 0, &blocks)
	for _, b := range blocks {
		t.keysA = append(t.keysA, b.key)
	}
	// shard blocks of h below its root (all levels)
	var walkShards func(l datamodel.Link)
	walkShards = func(l datamodel.Link) {
		nd, err := ls.Load(ipld.LinkContext{}, l, dagpb.Type.PBNode)
		verifrt.Assert(err == nil, "harness:shard-loads")
		links := nd.(dagpb.PBNode).FieldLinks()
		for i := int64(0); i < links.Length(); i++ {
			c := links.Lookup(i)
			if len(c.FieldName().Must().String()) == 1 {
				t.keysH = append(t.keysH, c.FieldHash().Link().Binary())
				walkShards(c.FieldHash().Link())
			}
		}
	}
	walkShards(lh)
	st.Loads = nil
	return t
}

// VerifPathTraversal (C03-S3, C05, C06, C20): real traversal.WalkMatching with the
// selectors of the path-selector builder over a tree of plain directories, a HAMT
// directory and a multi-block file.
func VerifPathTraversal() {
	t := buildTravTree()
	type pcase struct {
		path   string
		keys   []string // blocks along the path, root first (the entity's own root last)
		kind   int      // 0 dir, 1 file a, 2 file b, 3 hamt, -1 absent
		nsegs  int
		absent bool
		// the path runs through the HAMT: its sub-shards may be fetched on the way
		viaShards bool
	}
	cases := []pcase{
		{path: "", keys: []string{t.keyRoot}, kind: 0},
		{path: "a", keys: []string{t.keyRoot, t.keyA}, kind: 1, nsegs: 1},
		{path: "/d//b/", keys: []string{t.keyRoot, t.keyD, t.keyB}, kind: 2, nsegs: 2},
		{path: "d", keys: []string{t.keyRoot, t.keyD}, kind: 0, nsegs: 1},
		{path: "h", keys: []string{t.keyRoot, t.keyH}, kind: 3, nsegs: 1},
		{path: "h/7", keys: []string{t.keyRoot, t.keyH, t.keyB}, kind: 2, nsegs: 2, viaShards: true},
		{path: "nope", keys: []string{t.keyRoot}, absent: true, nsegs: 1},
		{path: "d/zz", keys: []string{t.keyRoot, t.keyD}, absent: true, nsegs: 2},
		{path: "a/..", keys: []string{t.keyRoot, t.keyA}, absent: true, nsegs: 2},
	}
	c := cases[verifrt.Choose(len(cases))]
	var target selbuilder.SelectorSpec
	tsel := verifrt.Choose(3)
	switch tsel {
	case 0:
		target = unixfsnode.MatchUnixFSSelector
	case 1:
		target = unixfsnode.MatchUnixFSPreloadSelector
	case 2:
		target = unixfsnode.MatchUnixFSEntitySelector
	}
	matchPath := verifrt.Choose(2) == 1
	selNode := unixfsnode.UnixFSPathSelectorBuilder(c.path, target, matchPath)
	sel, err := selector.CompileSelector(selNode)
	verifrt.Assert(err == nil, "selector:compiles")

	rootNode, err := t.ls.Load(ipld.LinkContext{}, t.root, dagpb.Type.PBNode)
	verifrt.Assert(err == nil, "harness:root-loads")
	t.st.Loads = nil
	var matched []datamodel.Node
	var matchedPaths []string
	prog := traversal.Progress{Cfg: &traversal.Config{
		LinkSystem:                     *t.ls,
		LinkTargetNodePrototypeChooser: func(l datamodel.Link, lc linking.LinkContext) (datamodel.NodePrototype, error) { return protoFor(l), nil },
	}}
	err = prog.WalkMatching(rootNode, sel, func(p traversal.Progress, n datamodel.Node) error {
		matched = append(matched, n)
		matchedPaths = append(matchedPaths, p.Path.String())
		return unixfsnode.BytesConsumingMatcher(p, n)
	})
	verifrt.Assert(err == nil, "walk:no-error")
	first := firstRequests(t.st) // before the assertions below touch the matched nodes
	// labels of the matchPath=true variant are kept apart (see known_findings.json)
	mp := ""
	if matchPath {
		mp = "@matchpath"
	}
	ev := "case " + c.path + " matched:"
	for _, p := range matchedPaths {
		ev += " [" + p + "]"
	}
	verifrt.Event(ev)

	// what must be matched
	wantMatches := 0
	if matchPath {
		// every node along the path that exists is matched once, in order, before the target
		wantMatches = len(c.keys) - 1
		if c.absent {
			wantMatches = len(c.keys)
		}
	}
	if !c.absent {
		if tsel == 2 {
			// the entity selector also matches the entity's direct children (depth-1 recursion)
			verifrt.Assert(len(matched) >= wantMatches+1, "walk:target-matched"+mp)
		} else {
			verifrt.Assert(len(matched) == wantMatches+1, "walk:exactly-the-named-entity"+mp)
		}
		if len(matched) > wantMatches {
			tn := matched[wantMatches]
			switch c.kind {
			case 0, 3:
				verifrt.Assert(tn.Kind() == datamodel.Kind_Map, "walk:directory-match-is-map"+mp)
			case 1:
				b, err := tn.AsBytes()
				verifrt.Assert(err == nil && len(b) == 3 && verifrt.BytesEq(b, t.fileA), "walk:file-match-carries-exact-bytes"+mp)
			case 2:
				b, err := tn.AsBytes()
				verifrt.Assert(err == nil && len(b) == 1 && verifrt.BytesEq(b, t.fileB), "walk:file-match-carries-exact-bytes"+mp)
			}
			if c.kind == 3 {
				verifrt.Assert(tn.Length() == int64(len(t.hEntries)), "walk:hamt-match-lists-entries"+mp)
			}
		}
		verifrt.Reach("present")
	} else {
		verifrt.Assert(len(matched) == wantMatches, "walk:absent-path-matches-nothing"+mp)
		verifrt.Reach("absent")
	}
	// blocks: the path's blocks are requested root-to-target, nothing off the path
	onPath := map[string]bool{}
	for _, k := range c.keys {
		onPath[k] = true
	}
	if c.viaShards {
		for _, k := range t.keysH {
			onPath[k] = true
		}
	}
	entity := map[string]bool{}
	if !c.absent {
		switch c.kind {
		case 1:
			for _, k := range t.keysA {
				entity[k] = true
			}
		case 3:
			for _, k := range t.keysH {
				entity[k] = true
			}
		}
	}
	for _, k := range first {
		if !(onPath[k] || entity[k]) {
			nm := "?"
			switch k {
			case t.keyA:
				nm = "a"
			case t.keyB:
				nm = "b"
			case t.keyD:
				nm = "d"
			case t.keyH:
				nm = "h"
			}
			verifrt.Event("off-path block requested: " + nm)
		}
		verifrt.Assert(onPath[k] || entity[k], "loads:only-path-and-entity-blocks"+mp)
	}
	// path blocks below the root appear in root-to-target order
	idx := 0
	for _, k := range first {
		if idx+1 < len(c.keys) && k == c.keys[idx+1] {
			idx++
		}
	}
	verifrt.Assert(idx == len(c.keys)-1, "loads:path-blocks-in-root-to-target-order"+mp)
	if !c.absent && c.kind == 1 {
		// a matched file's bytes were consumed: every block of it was fetched (entity/preload/match + BytesConsumingMatcher)
		got := 0
		for _, k := range first {
			if entity[k] {
				got++
			}
		}
		distinct := map[string]bool{}
		for _, k := range t.keysA {
			distinct[k] = true
		}
		verifrt.Assert(got == len(distinct), "loads:whole-file-fetched-when-consumed"+mp)
	}
	if !c.absent && c.kind == 3 && tsel >= 1 {
		got := 0
		for _, k := range first {
			if entity[k] {
				got++
			}
		}
		verifrt.Assert(got == len(t.keysH), "loads:all-shards-fetched-by-preload-and-entity"+mp)
	}
	verifrt.Reach("end")
}
