package test

import (
	"io"

	unixfsnode "github.com/ipfs/go-unixfsnode"
	"github.com/ipfs/go-unixfsnode/file"
	"github.com/ipfs/go-unixfsnode/internal/verifmodel"
	"github.com/ipfs/go-unixfsnode/internal/verifrt"
	"github.com/ipfs/go-cid"
	"github.com/ipld/go-ipld-prime"
	"github.com/ipld/go-ipld-prime/datamodel"
	cidlink "github.com/ipld/go-ipld-prime/linking/cid"
)

func pbVarintMin(b []byte, v uint64) []byte { // canonical varint of a concrete value
	for v >= 0x80 {
		b = append(b, byte(v)|0x80)
		v >>= 7
	}
	return append(b, byte(v))
}

// menuNode assembles one well-formed file DAG node from the grammar of what the
// reference importer can emit (balanced or trickle layout, raw or dag-pb leaves,
// CIDv0 or v1) and returns its link, content and cumulative size.
func menuNode(ls *ipld.LinkSystem, depth int, v0 bool) (datamodel.Link, []byte, uint64) {
	return menuNodeAt(ls, depth, v0, true)
}

// menuNodeAt: below the top node of a deep (depth>=2) DAG the menu is slimmed to two
// shapes per level (a 1-byte leaf, or an interior node over two such subtrees with
// its metadata chosen freely), which keeps the depth-2 exploration finite.
func menuNodeAt(ls *ipld.LinkSystem, depth int, v0 bool, top bool) (datamodel.Link, []byte, uint64) {
	slim := !top && verifrt.Param("deep", 0) >= 1
	storePB := func(n datamodel.Node) datamodel.Link {
		pfx := keyLinkPrefix(0x70)
		if v0 {
			pfx = cid.Prefix{Version: 0, Codec: 0x70, MhType: 0x12, MhLength: 32}
			verifrt.Reach("cidv0")
		}
		l, err := ls.Store(ipld.LinkContext{}, cidlink.LinkPrototype{Prefix: pfx}, n)
		verifrt.Assert(err == nil, "harness:store")
		return l
	}
	kind := 0
	if slim {
		if depth > 0 && verifrt.Choose(2) == 1 {
			kind = 3
		}
	} else {
		kind = verifrt.Choose(4)
		if depth == 0 && kind == 3 {
			kind = 0
		}
	}
	switch kind {
	case 0: // raw leaf (raw-leaves mode; always CIDv1)
		n0 := 1
		if !slim {
			n0 = verifrt.Choose(3)
		}
		c := verifrt.Bytes(n0)
		if v0 {
			// CIDv0 DAGs have dag-pb leaves only
			d := pbField(nil, 1, pbLeafType(slim))
			d = pbBytes(d, 2, c)
			d = append(append(d, 3<<3), pbVarintMin(nil, uint64(len(c)))...)
			l := storePB(mkPBNode(true, d, nil))
			blk, _ := lsGet(ls, l)
			verifrt.Reach("pb-leaf")
			return l, c, uint64(len(blk))
		}
		return storeRaw(ls, c), c, uint64(len(c))
	case 1: // dag-pb leaf with inline data (protobuf-leaves mode)
		c := verifrt.Bytes(1 + verifrt.Choose(2))
		d := pbField(nil, 1, pbLeafType(slim))
		d = pbBytes(d, 2, c)
		d = append(append(d, 3<<3), pbVarintMin(nil, uint64(len(c)))...)
		l := storePB(mkPBNode(true, d, nil))
		blk, _ := lsGet(ls, l)
		verifrt.Reach("pb-leaf")
		return l, c, uint64(len(blk))
	case 2: // empty dag-pb file node
		l := storePB(mkPBNode(true, pbField(nil, 1, 2), nil))
		blk, _ := lsGet(ls, l)
		return l, nil, uint64(len(blk))
	}
	// interior node over 1..2 children of mixed depth (trickle-like when depths differ)
	nc := 1 + verifrt.Choose(2)
	var content []byte
	var links []pbLinkSpec
	var sizes []uint64
	var total uint64
	depths := 0
	for i := 0; i < nc; i++ {
		cd := depth - 1
		if cd > 0 && verifrt.Choose(2) == 1 {
			cd = 0
			depths++
		}
		l, c, sz := menuNodeAt(ls, cd, v0, false)
		content = append(content, c...)
		sizes = append(sizes, uint64(len(c)))
		total += sz
		links = append(links, pbLinkSpec{hash: l, hasName: true, name: "", hasTsize: true, tsize: int64(sz)})
	}
	if depths > 0 && depths < nc {
		verifrt.Reach("trickle")
	}
	d := pbField(nil, 1, 2)
	if verifrt.Choose(2) == 1 {
		d = append(append(d, 3<<3), pbVarintMin(nil, uint64(len(content)))...)
	} else {
		verifrt.Reach("no-filesize")
	}
	if verifrt.Choose(2) == 1 {
		for _, s := range sizes {
			d = append(append(d, 4<<3), pbVarintMin(nil, s)...)
		}
	} else {
		verifrt.Reach("no-blocksizes")
	}
	l := storePB(mkPBNode(true, d, links))
	blk, _ := lsGet(ls, l)
	return l, content, total + uint64(len(blk))
}

// pbLeafType: the reference importer types its protobuf leaves File (balanced
// layout) or Raw (trickle layout, helpers.FillNodeLayer); both carry file bytes.
func pbLeafType(slim bool) uint64 {
	if !slim && verifrt.Choose(2) == 1 {
		verifrt.Reach("pb-leaf-typed-raw")
		return 0
	}
	return 2
}

var menuStore *verifmodel.Store

func lsGet(ls *ipld.LinkSystem, l datamodel.Link) ([]byte, bool) { return menuStore.Get(l.Binary()) }

// VerifReaderMenu (C01-R): any DAG of the menu grammar reads back to the
// concatenation of its leaves' contents: whole value, streamed, seek-to-end.
func VerifReaderMenu() {
	st := verifmodel.NewStore()
	menuStore = st
	ls := st.LinkSystem()
	unixfsnode.AddUnixFSReificationToLinkSystem(ls)
	depth := 1 + verifrt.Param("deep", 0)
	v0 := verifrt.Choose(2) == 1
	lnk, content, _ := menuNode(ls, depth, v0)
	root, err := ls.Load(ipld.LinkContext{}, lnk, protoFor(lnk))
	verifrt.Assert(err == nil, "root-loads")
	var node datamodel.Node
	switch verifrt.Choose(3) {
	case 0:
		node, err = file.NewUnixFSFile(nil, root, ls)
	case 1:
		node, err = unixfsnode.Reify(ipld.LinkContext{}, root, ls)
	default:
		node, err = ls.KnownReifiers["unixfs-preload"](ipld.LinkContext{}, root, ls)
	}
	verifrt.Assert(err == nil && node != nil, "open-ok")
	all, err := node.AsBytes()
	verifrt.Assert(err == nil, "asbytes-ok")
	verifrt.Assert(len(all) == len(content) && verifrt.BytesEq(all, content), "asbytes=content")
	if lb, ok := node.(file.LargeBytesNode); ok {
		rs, err := lb.AsLargeBytes()
		verifrt.Assert(err == nil, "aslargebytes-ok")
		end, err := rs.Seek(0, io.SeekEnd)
		verifrt.Assert(err == nil && end == int64(len(content)), "seek-end=len")
		_, err = rs.Seek(0, io.SeekStart)
		verifrt.Assert(err == nil, "seek-start")
		buf := make([]byte, 1+verifrt.Choose(2))
		var got []byte
		for i := 0; ; i++ {
			verifrt.Assert(i <= len(content)+3, "read-terminates")
			n, err := rs.Read(buf)
			got = append(got, buf[:n]...)
			if err == io.EOF {
				break
			}
			verifrt.Assert(err == nil, "read-no-error")
		}
		verifrt.Assert(len(got) == len(content) && verifrt.BytesEq(got, content), "stream=content")
	}
	verifrt.Reach("end")
}
