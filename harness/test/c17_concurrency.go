package test

import (
	"io"
	"strings"

	"github.com/ipfs/go-unixfsnode/file"
	"github.com/ipfs/go-unixfsnode/internal/verifmodel"
	"github.com/ipfs/go-unixfsnode/internal/verifrt"
	"github.com/ipld/go-ipld-prime"
	"github.com/ipld/go-ipld-prime/datamodel"
)

// ---- schedule encoding ----------------------------------------------------
//
// Each thread's real execution of one operation on the shared node is recorded as
// a trace of accesses to the node's internal cells (engine: verifrt.TraceShared).
// The interleaving is a vector of symbolic clocks, one per event, constrained by
// program order, mutual exclusion of critical sections of the same mutex, and
// sync.Once (only the earlier thread runs the body; the other returns after it).
// A data race is a schedule in which two accesses to one cell from different
// threads, at least one a write, are adjacent.

type tev struct {
	kind string // R W L U ONCE-ENTER ONCE-BODY-BEGIN ONCE-BODY-END ONCE-RETURN
	cell string
	drop bool
	th   int // 1 or 2 once scheduled
	idx  int // position in its thread's scheduled trace
}

// sched is a symbolic interleaving of two scheduled traces k1 and k2: pos[i] is the
// number of k2 events that precede k1[i]; it is non-decreasing along k1 (program
// order) and at most len(k2). Every order question between events of different
// threads is a comparison of one pos variable with a constant.
type sched struct {
	k1, k2 []*tev
	pos    []uint8
	ok     bool
}

func newSched(k1, k2 []*tev) *sched {
	s := &sched{k1: k1, k2: k2, ok: true}
	for i, e := range k1 {
		e.th, e.idx = 1, i
		p := verifrt.U8()
		s.ok = verifrt.And(s.ok, p <= uint8(len(k2)))
		if i > 0 {
			s.ok = verifrt.And(s.ok, p >= s.pos[i-1])
		}
		s.pos = append(s.pos, p)
	}
	for j, e := range k2 {
		e.th, e.idx = 2, j
	}
	return s
}

// before: a is scheduled before b (events of different threads).
func (s *sched) before(a, b *tev) bool {
	if a.th == 1 {
		return s.pos[a.idx] <= uint8(b.idx)
	}
	return s.pos[b.idx] > uint8(a.idx)
}

// adjacent: a and b (different threads) are next to each other in the schedule.
func (s *sched) adjacent(a, b *tev) bool {
	if a.th == 2 {
		a, b = b, a
	}
	i, j := a.idx, b.idx
	// a immediately before b: exactly j events of k2 precede a, and the next k1 event follows b
	ab := s.pos[i] == uint8(j)
	if i+1 < len(s.k1) {
		ab = verifrt.And(ab, s.pos[i+1] > uint8(j))
	}
	// b immediately before a: exactly j+1 events of k2 precede a, and the previous k1 event precedes b
	ba := s.pos[i] == uint8(j+1)
	if i > 0 {
		ba = verifrt.And(ba, s.pos[i-1] <= uint8(j))
	}
	return verifrt.Or(ab, ba)
}

func (s *sched) require(c bool) { s.ok = verifrt.And(s.ok, c) }

func inTrace(e *tev, k []*tev) bool {
	for _, x := range k {
		if x == e {
			return true
		}
	}
	return false
}

// exclusive adds mutual exclusion of the critical sections of each mutex.
func (s *sched) exclusive() {
	s1, s2 := sections(s.k1), sections(s.k2)
	for m, as := range s1 {
		for _, a := range as {
			for _, b := range s2[m] {
				s.require(verifrt.Or(s.before(a.hi, b.lo), s.before(b.hi, a.lo)))
			}
		}
	}
}

// noRaces asserts, per cell class, that no schedule makes two conflicting accesses adjacent.
func (s *sched) noRaces(label string) {
	verifrt.Assume(s.ok)
	noRace := map[string]bool{}
	var classes []string
	for _, a := range s.k1 {
		for _, b := range s.k2 {
			if a.cell != b.cell {
				continue
			}
			if (a.kind == "W" && (b.kind == "R" || b.kind == "W")) || (b.kind == "W" && a.kind == "R") {
				c := cellClass(a.cell)
				if _, seen := noRace[c]; !seen {
					noRace[c] = true
					classes = append(classes, c)
				}
				noRace[c] = verifrt.And(noRace[c], !s.adjacent(a, b))
			}
		}
	}
	for _, c := range classes {
		verifrt.Assert(noRace[c], label+":"+c)
	}
	if len(classes) > 0 {
		verifrt.Reach("conflicting-accesses-checked")
	}
}

func parseTrace(raw []string) []*tev {
	var out []*tev
	for _, e := range raw {
		i := strings.IndexByte(e, ' ')
		out = append(out, &tev{kind: e[:i], cell: e[i+1:]})
	}
	return out
}

// dropOnceBody removes the body of Once `cell` from a trace (the thread that lost).
func dropOnceBody(t []*tev, cell string) {
	in := false
	for _, e := range t {
		if e.cell == cell && e.kind == "ONCE-BODY-BEGIN" {
			in = true
		}
		if in {
			e.drop = true
		}
		if e.cell == cell && e.kind == "ONCE-BODY-END" {
			in = false
		}
	}
}

func find(t []*tev, kind, cell string) *tev {
	for _, e := range t {
		if e.kind == kind && e.cell == cell && !e.drop {
			return e
		}
	}
	return nil
}

type section struct{ lo, hi *tev }

func sections(t []*tev) map[string][]section {
	out := map[string][]section{}
	open := map[string]*tev{}
	for _, e := range t {
		if e.drop {
			continue
		}
		switch e.kind {
		case "L":
			open[e.cell] = e
		case "U":
			if lo := open[e.cell]; lo != nil {
				out[e.cell] = append(out[e.cell], section{lo, e})
				delete(open, e.cell)
			}
		}
	}
	return out
}

// raceFree asserts that no schedule of the two traces has a data race.
func raceFree(t1, t2 []*tev, label string) {
	// Once: both isolated traces ran the body; in a joint run only the first does
	onceCells := map[string]bool{}
	for _, e := range t1 {
		if e.kind == "ONCE-BODY-BEGIN" && find(t2, "ONCE-BODY-BEGIN", e.cell) != nil {
			onceCells[e.cell] = true
		}
	}
	type hb struct{ before, after *tev }
	var hbs []hb
	for c := range onceCells {
		if verifrt.Choose(2) == 0 { // thread 1 wins this Once
			dropOnceBody(t2, c)
			hbs = append(hbs, hb{find(t1, "ONCE-BODY-END", c), find(t2, "ONCE-RETURN", c)})
		} else {
			dropOnceBody(t1, c)
			hbs = append(hbs, hb{find(t2, "ONCE-BODY-END", c), find(t1, "ONCE-RETURN", c)})
		}
	}
	// only events that can matter are scheduled: accesses to cells that both threads
	// touch with at least one write, and synchronisation events
	writes := map[string]bool{}
	touched1, touched2 := map[string]bool{}, map[string]bool{}
	for _, e := range t1 {
		if !e.drop && (e.kind == "R" || e.kind == "W") {
			touched1[e.cell] = true
			if e.kind == "W" {
				writes[e.cell] = true
			}
		}
	}
	for _, e := range t2 {
		if !e.drop && (e.kind == "R" || e.kind == "W") {
			touched2[e.cell] = true
			if e.kind == "W" {
				writes[e.cell] = true
			}
		}
	}
	keep := func(t []*tev) []*tev {
		var out []*tev
		var last *tev
		for _, e := range t {
			if e.drop {
				continue
			}
			if e.kind == "R" || e.kind == "W" {
				if !(touched1[e.cell] && touched2[e.cell] && writes[e.cell]) {
					continue
				}
				// consecutive identical accesses are one event for adjacency purposes
				if last != nil && last.kind == e.kind && last.cell == e.cell {
					continue
				}
			}
			out = append(out, e)
			last = e
		}
		return out
	}
	k1, k2 := keep(t1), keep(t2)
	verifrt.Assert(len(k1) < 250 && len(k2) < 250, "harness:trace-fits-8-bit-positions")
	sc := newSched(k1, k2)
	for _, h := range hbs {
		if h.before != nil && h.after != nil && (inTrace(h.before, k1) || inTrace(h.before, k2)) && (inTrace(h.after, k1) || inTrace(h.after, k2)) {
			sc.require(sc.before(h.before, h.after))
		}
	}
	sc.exclusive()
	sc.noRaces(label)
}

func cellClass(c string) string {
	// strip per-child suffixes so that labels are stable
	if i := strings.IndexByte(c, '['); i >= 0 {
		c = c[:i] + "[child]" + c[strings.LastIndexByte(c, ']')+1:]
	}
	for {
		i := strings.IndexByte(c, '#')
		if i < 0 {
			return c
		}
		j := i + 1
		for j < len(c) && c[j] >= '0' && c[j] <= '9' {
			j++
		}
		c = c[:i] + c[j:]
	}
}

// hamtOp runs one read-only operation on the node.
func hamtOp(node datamodel.Node, bh *builtHamt, op int) string {
	switch op {
	case 0:
		e := bh.entries[0]
		v, err := node.LookupByString(e.name)
		if err != nil {
			return "err"
		}
		l, _ := v.AsLink()
		return l.String()
	case 1:
		e := bh.entries[len(bh.entries)-1]
		v, err := node.LookupByString(e.name)
		if err != nil {
			return "err"
		}
		l, _ := v.AsLink()
		return l.String()
	case 2:
		if node.Length() == int64(len(bh.entries)) {
			return "len-ok"
		}
		return "len-bad"
	default:
		n := 0
		for it := node.MapIterator(); !it.Done(); n++ {
			if _, _, err := it.Next(); err != nil {
				return "iter-err"
			}
		}
		if n == len(bh.entries) {
			return "iter-ok"
		}
		return "iter-bad"
	}
}

// VerifHamtConcurrentReaders (C17): two goroutines running any two read-only
// operations on one shared sharded-directory node (cold cache, or warmed by a
// third operation first) have no data race on the node's internal state, and each
// operation returns what it returns alone whichever of them goes first.
func VerifHamtConcurrentReaders() {
	which := verifrt.Choose(len(hShapes) - 1)
	lg := verifrt.Param("lg", 3)
	opA := verifrt.Choose(4)
	opB := verifrt.Choose(4)
	warm := verifrt.Choose(2) == 1

	run := func(op int, first int) ([]string, string) {
		bh := buildHamtShape(which, lg)
		node, err := bh.open(false)
		verifrt.Assert(err == nil, "harness:open")
		if warm {
			hamtOp(node, bh, 3)
		}
		if first >= 0 {
			hamtOp(node, bh, first)
		}
		verifrt.TraceShared(node, "n")
		res := hamtOp(node, bh, op)
		return verifrt.TraceTake(), res
	}
	rawA, soloA := run(opA, -1)
	rawB, soloB := run(opB, -1)
	// results are independent of which operation ran first on the shared node
	_, afterB := run(opA, opB)
	_, afterA := run(opB, opA)
	verifrt.Assert(soloA == afterB && soloB == afterA, "results:same-as-alone")
	raceFree(parseTrace(rawA), parseTrace(rawB), "race")
	verifrt.Reach("end")
}

// VerifFileConcurrentReaders (C17): separate readers of one shared multi-block
// file node used from two goroutines.
func VerifFileConcurrentReaders() {
	L := 2 + verifrt.Choose(3)
	run := func() ([]string, int) {
		bf := buildFileFor(2, 1, L)
		defer bf.restore()
		root, err := bf.ls.Load(ipld.LinkContext{}, bf.lnk, protoFor(bf.lnk))
		verifrt.Assert(err == nil, "harness:root-loads")
		node, err := file.NewUnixFSFile(nil, root, bf.ls)
		verifrt.Assert(err == nil, "harness:open")
		verifrt.TraceShared(node, "f")
		rs, _ := node.AsLargeBytes()
		buf := make([]byte, 2)
		n, _ := rs.Read(buf)
		end, _ := rs.Seek(0, 2)
		return verifrt.TraceTake(), n*100 + int(end)
	}
	rawA, resA := run()
	rawB, resB := run()
	verifrt.Assert(resA == resB, "results:same-as-alone")
	raceFree(parseTrace(rawA), parseTrace(rawB), "race")
	verifrt.Reach("end")
}

// ---- joint (predictive) analysis ---------------------------------------------
//
// The two operations run one after the other on the same node with deep tracing
// (objects published into the node by the first operation are traced under names
// unique to the object, so the second operation's accesses to them are accesses to
// the same cells). Every schedule of the two recorded traces that preserves each
// read's writer (so both threads still see the values they saw, and therefore
// still execute these traces), program order, mutual exclusion and sync.Once
// ordering is considered; a race is a schedule that makes two conflicting accesses
// of different threads adjacent.

func splitJoint(raw []string) (a, b []*tev) {
	cur := 0
	for _, e := range raw {
		i := strings.IndexByte(e, ' ')
		if e[:i] == "M" {
			cur++
			continue
		}
		ev := &tev{kind: e[:i], cell: e[i+1:]}
		if cur <= 1 {
			a = append(a, ev)
		} else {
			b = append(b, ev)
		}
	}
	return
}

func raceFreeJoint(raw []string, label string) {
	t1, t2 := splitJoint(raw)
	writes := map[string]bool{}
	touched1, touched2 := map[string]bool{}, map[string]bool{}
	mark := func(t []*tev, touched map[string]bool) {
		for _, e := range t {
			if e.kind == "R" || e.kind == "W" {
				touched[e.cell] = true
				if e.kind == "W" {
					writes[e.cell] = true
				}
			}
		}
	}
	mark(t1, touched1)
	mark(t2, touched2)
	keep := func(t []*tev) []*tev {
		var out []*tev
		var last *tev
		for _, e := range t {
			if e.kind == "R" || e.kind == "W" {
				if !(touched1[e.cell] && touched2[e.cell] && writes[e.cell]) {
					continue
				}
				if last != nil && last.kind == e.kind && last.cell == e.cell {
					continue
				}
			}
			out = append(out, e)
			last = e
		}
		return out
	}
	k1, k2 := keep(t1), keep(t2)
	verifrt.Assert(len(k1) < 250 && len(k2) < 250, "harness:trace-fits-8-bit-positions")
	sc := newSched(k1, k2)
	// sync.Once: the thread that did not run the body returns after the body ended
	onceOrder := func(body, other []*tev) {
		for _, e := range body {
			if e.kind == "ONCE-BODY-END" {
				for _, r := range other {
					if r.kind == "ONCE-RETURN" && r.cell == e.cell {
						sc.require(sc.before(e, r))
					}
				}
			}
		}
	}
	onceOrder(k1, k2)
	onceOrder(k2, k1)
	sc.exclusive()
	// every read keeps its writer (observed order: all of k1, then all of k2)
	lastW := map[string]*tev{}
	readsFrom := func(mine, other []*tev) {
		for _, e := range mine {
			switch e.kind {
			case "W":
				lastW[e.cell] = e
			case "R":
				lw := lastW[e.cell]
				switch {
				case lw == nil:
					for _, o := range other {
						if o.kind == "W" && o.cell == e.cell {
							sc.require(sc.before(e, o))
						}
					}
				case lw.th != e.th:
					sc.require(sc.before(lw, e))
				default:
					for _, o := range other {
						if o.kind == "W" && o.cell == e.cell {
							sc.require(verifrt.Or(sc.before(o, lw), sc.before(e, o)))
						}
					}
				}
			}
		}
	}
	readsFrom(k1, k2)
	readsFrom(k2, k1)
	sc.noRaces(label)
}

// VerifHamtConcurrentReadersJoint (C17): as VerifHamtConcurrentReaders, with the two
// operations recorded on one and the same node (see "joint analysis" above), so that
// objects one operation caches in the node and the other then uses are covered.
func VerifHamtConcurrentReadersJoint() {
	which := verifrt.Choose(len(hShapes) - 1)
	lg := verifrt.Param("lg", 3)
	opA := verifrt.Choose(4)
	opB := verifrt.Choose(4)
	bh := buildHamtShape(which, lg)
	node, err := bh.open(false)
	verifrt.Assert(err == nil, "harness:open")
	verifrt.TraceSharedDeep(node, "n")
	verifrt.TraceMark("A")
	hamtOp(node, bh, opA)
	verifrt.TraceMark("B")
	hamtOp(node, bh, opB)
	raceFreeJoint(verifrt.TraceTake(), "race")
	verifrt.Reach("end")
}

// VerifFileConcurrentReadersJoint (C17): two goroutines each obtain their own reader
// from one shared file node with two interior levels and read the whole file.
func VerifFileConcurrentReadersJoint() {
	var ls *ipld.LinkSystem
	var lnk datamodel.Link
	var content []byte
	shape := verifrt.Choose(3)
	switch shape {
	case 0: // written by the builder: two interior levels, BlockSizes everywhere
		L := 3 + verifrt.Choose(3)
		bf := buildFileFor(2, 1, L)
		defer bf.restore()
		ls, lnk, content = bf.ls, bf.lnk, bf.content
	default:
		// a file as other writers may leave it: no BlockSizes (shape 1) or with them
		// (shape 2), over dag-pb leaves with inline bytes: the reader has to open such
		// children to learn their sizes
		st := verifmodel.NewStore()
		ls = st.LinkSystem()
		content = []byte{'x', 'y', 'z'}
		var links []pbLinkSpec
		for i := range content {
			leaf := pbBytes(pbField(nil, 1, 2), 2, content[i:i+1])
			leaf = pbField(leaf, 3, 1)
			l := storeNode(ls, mkPBNode(true, leaf, nil))
			links = append(links, pbLinkSpec{hash: l, hasName: true, name: "", hasTsize: true, tsize: 8})
		}
		d := pbField(pbField(nil, 1, 2), 3, uint64(len(content)))
		if shape == 2 {
			for range content {
				d = pbField(d, 4, 1)
			}
		} else {
			verifrt.Reach("no-blocksizes")
		}
		lnk = storeNode(ls, mkPBNode(true, d, links))
	}
	L := len(content)
	root, err := ls.Load(ipld.LinkContext{}, lnk, protoFor(lnk))
	verifrt.Assert(err == nil, "harness:root-loads")
	node, err := file.NewUnixFSFile(nil, root, ls)
	verifrt.Assert(err == nil, "harness:open")
	op := func(from int) int {
		rs, err := node.AsLargeBytes()
		if err != nil {
			return -1
		}
		if from > 0 {
			if _, err := rs.Seek(int64(from), io.SeekStart); err != nil {
				return -3
			}
		}
		buf := make([]byte, L-from)
		n, _ := io.ReadFull(rs, buf)
		end, _ := rs.Seek(0, io.SeekEnd)
		if !verifrt.BytesEq(buf[:n], content[from:from+n]) {
			return -2
		}
		return n*100 + int(end)
	}
	// each goroutine reads from its own start offset to the end
	fromA, fromB := verifrt.Choose(2), verifrt.Choose(2)
	verifrt.TraceSharedDeep(node, "f")
	verifrt.TraceMark("A")
	resA := op(fromA)
	verifrt.TraceMark("B")
	resB := op(fromB)
	raw := verifrt.TraceTake()
	verifrt.Assert(resA == (L-fromA)*100+L && resB == (L-fromB)*100+L, "results:same-as-alone")
	raceFreeJoint(raw, "race")
	verifrt.Reach("end")
}
