package test

import (
	"strings"

	"github.com/ipfs/go-unixfsnode/file"
	"github.com/ipfs/go-unixfsnode/internal/verifrt"
	"github.com/ipld/go-ipld-prime"
	"github.com/ipld/go-ipld-prime/datamodel"
)

// ---- schedule encoding ----------------------------------------------------
//
// Each thread's real execution of one operation on the shared node is recorded as
// a trace of accesses to the node's internal cells (engine: verifrt.TraceShared).
// The interleaving is a vector of symbolic clocks, one per event, constrained by
// program order, mutual exclusion of critical sections of the same mutex, and
// sync.Once (only the earlier thread runs the body; the other returns after it).
// A data race is a schedule in which two accesses to one cell from different
// threads, at least one a write, are adjacent.

type tev struct {
	kind string // R W L U ONCE-ENTER ONCE-BODY-BEGIN ONCE-BODY-END ONCE-RETURN
	cell string
	clk  uint8
	drop bool
}

func parseTrace(raw []string) []*tev {
	var out []*tev
	for _, e := range raw {
		i := strings.IndexByte(e, ' ')
		out = append(out, &tev{kind: e[:i], cell: e[i+1:]})
	}
	return out
}

// dropOnceBody removes the body of Once `cell` from a trace (the thread that lost).
func dropOnceBody(t []*tev, cell string) {
	in := false
	for _, e := range t {
		if e.cell == cell && e.kind == "ONCE-BODY-BEGIN" {
			in = true
		}
		if in {
			e.drop = true
		}
		if e.cell == cell && e.kind == "ONCE-BODY-END" {
			in = false
		}
	}
}

func find(t []*tev, kind, cell string) *tev {
	for _, e := range t {
		if e.kind == kind && e.cell == cell && !e.drop {
			return e
		}
	}
	return nil
}

type section struct{ lo, hi *tev }

func sections(t []*tev) map[string][]section {
	out := map[string][]section{}
	open := map[string]*tev{}
	for _, e := range t {
		if e.drop {
			continue
		}
		switch e.kind {
		case "L":
			open[e.cell] = e
		case "U":
			if lo := open[e.cell]; lo != nil {
				out[e.cell] = append(out[e.cell], section{lo, e})
				delete(open, e.cell)
			}
		}
	}
	return out
}

// raceFree asserts that no schedule of the two traces has a data race.
func raceFree(t1, t2 []*tev, label string) {
	// Once: both isolated traces ran the body; in a joint run only the first does
	onceCells := map[string]bool{}
	for _, e := range t1 {
		if e.kind == "ONCE-BODY-BEGIN" && find(t2, "ONCE-BODY-BEGIN", e.cell) != nil {
			onceCells[e.cell] = true
		}
	}
	type hb struct{ before, after *tev }
	var hbs []hb
	for c := range onceCells {
		if verifrt.Choose(2) == 0 { // thread 1 wins this Once
			dropOnceBody(t2, c)
			hbs = append(hbs, hb{find(t1, "ONCE-BODY-END", c), find(t2, "ONCE-RETURN", c)})
		} else {
			dropOnceBody(t1, c)
			hbs = append(hbs, hb{find(t2, "ONCE-BODY-END", c), find(t1, "ONCE-RETURN", c)})
		}
	}
	// only events that can matter are scheduled: accesses to cells that both threads
	// touch with at least one write, and synchronisation events
	writes := map[string]bool{}
	touched1, touched2 := map[string]bool{}, map[string]bool{}
	for _, e := range t1 {
		if !e.drop && (e.kind == "R" || e.kind == "W") {
			touched1[e.cell] = true
			if e.kind == "W" {
				writes[e.cell] = true
			}
		}
	}
	for _, e := range t2 {
		if !e.drop && (e.kind == "R" || e.kind == "W") {
			touched2[e.cell] = true
			if e.kind == "W" {
				writes[e.cell] = true
			}
		}
	}
	keep := func(t []*tev) []*tev {
		var out []*tev
		var last *tev
		for _, e := range t {
			if e.drop {
				continue
			}
			if e.kind == "R" || e.kind == "W" {
				if !(touched1[e.cell] && touched2[e.cell] && writes[e.cell]) {
					continue
				}
				// consecutive identical accesses are one event for adjacency purposes
				if last != nil && last.kind == e.kind && last.cell == e.cell {
					continue
				}
			}
			out = append(out, e)
			last = e
		}
		return out
	}
	k1, k2 := keep(t1), keep(t2)
	n := len(k1) + len(k2)
	verifrt.Assert(n < 120, "harness:trace-fits-8-bit-clocks")
	ok := true
	assign := func(t []*tev) {
		var prev *tev
		for _, e := range t {
			e.clk = verifrt.U8()
			ok = verifrt.And(ok, e.clk < uint8(2*n+2))
			if prev != nil {
				ok = verifrt.And(ok, e.clk > prev.clk)
			}
			prev = e
		}
	}
	assign(k1)
	assign(k2)
	for _, a := range k1 {
		for _, b := range k2 {
			ok = verifrt.And(ok, a.clk != b.clk)
		}
	}
	inKeep := func(e *tev, k []*tev) bool {
		for _, x := range k {
			if x == e {
				return true
			}
		}
		return false
	}
	for _, h := range hbs {
		if h.before != nil && h.after != nil && (inKeep(h.before, k1) || inKeep(h.before, k2)) && (inKeep(h.after, k1) || inKeep(h.after, k2)) {
			ok = verifrt.And(ok, h.before.clk < h.after.clk)
		}
	}
	s1, s2 := sections(k1), sections(k2)
	for m, as := range s1 {
		for _, a := range as {
			for _, b := range s2[m] {
				ok = verifrt.And(ok, verifrt.Or(a.hi.clk < b.lo.clk, b.hi.clk < a.lo.clk))
			}
		}
	}
	verifrt.Assume(ok)
	// one obligation per cell class: no schedule makes a conflicting pair adjacent
	noRace := map[string]bool{}
	var classes []string
	for _, a := range k1 {
		for _, b := range k2 {
			if a.cell != b.cell {
				continue
			}
			if (a.kind == "W" && (b.kind == "R" || b.kind == "W")) || (b.kind == "W" && a.kind == "R") {
				c := cellClass(a.cell)
				if _, seen := noRace[c]; !seen {
					noRace[c] = true
					classes = append(classes, c)
				}
				noRace[c] = verifrt.And(noRace[c], !verifrt.Or(a.clk+1 == b.clk, b.clk+1 == a.clk))
			}
		}
	}
	for _, c := range classes {
		verifrt.Assert(noRace[c], label+":"+c)
	}
	if len(classes) > 0 {
		verifrt.Reach("conflicting-accesses-checked")
	}
}

func cellClass(c string) string {
	// strip per-child suffixes so that labels are stable
	if i := strings.IndexByte(c, '['); i >= 0 {
		return c[:i] + "[child]" + c[strings.LastIndexByte(c, ']')+1:]
	}
	return c
}

// hamtOp runs one read-only operation on the node.
func hamtOp(node datamodel.Node, bh *builtHamt, op int) string {
	switch op {
	case 0:
		e := bh.entries[0]
		v, err := node.LookupByString(e.name)
		if err != nil {
			return "err"
		}
		l, _ := v.AsLink()
		return l.String()
	case 1:
		e := bh.entries[len(bh.entries)-1]
		v, err := node.LookupByString(e.name)
		if err != nil {
			return "err"
		}
		l, _ := v.AsLink()
		return l.String()
	case 2:
		if node.Length() == int64(len(bh.entries)) {
			return "len-ok"
		}
		return "len-bad"
	default:
		n := 0
		for it := node.MapIterator(); !it.Done(); n++ {
			if _, _, err := it.Next(); err != nil {
				return "iter-err"
			}
		}
		if n == len(bh.entries) {
			return "iter-ok"
		}
		return "iter-bad"
	}
}

// VerifHamtConcurrentReaders (C17): two goroutines running any two read-only
// operations on one shared sharded-directory node (cold cache, or warmed by a
// third operation first) have no data race on the node's internal state, and each
// operation returns what it returns alone whichever of them goes first.
func VerifHamtConcurrentReaders() {
	which := verifrt.Choose(len(hShapes) - 1)
	lg := verifrt.Param("lg", 3)
	opA := verifrt.Choose(4)
	opB := verifrt.Choose(4)
	warm := verifrt.Choose(2) == 1

	run := func(op int, first int) ([]string, string) {
		bh := buildHamtShape(which, lg)
		node, err := bh.open(false)
		verifrt.Assert(err == nil, "harness:open")
		if warm {
			hamtOp(node, bh, 3)
		}
		if first >= 0 {
			hamtOp(node, bh, first)
		}
		verifrt.TraceShared(node, "n")
		res := hamtOp(node, bh, op)
		return verifrt.TraceTake(), res
	}
	rawA, soloA := run(opA, -1)
	rawB, soloB := run(opB, -1)
	// results are independent of which operation ran first on the shared node
	_, afterB := run(opA, opB)
	_, afterA := run(opB, opA)
	verifrt.Assert(soloA == afterB && soloB == afterA, "results:same-as-alone")
	raceFree(parseTrace(rawA), parseTrace(rawB), "race")
	verifrt.Reach("end")
}

// VerifFileConcurrentReaders (C17): separate readers of one shared multi-block
// file node used from two goroutines.
func VerifFileConcurrentReaders() {
	L := 2 + verifrt.Choose(3)
	run := func() ([]string, int) {
		bf := buildFileFor(2, 1, L)
		defer bf.restore()
		root, err := bf.ls.Load(ipld.LinkContext{}, bf.lnk, protoFor(bf.lnk))
		verifrt.Assert(err == nil, "harness:root-loads")
		node, err := file.NewUnixFSFile(nil, root, bf.ls)
		verifrt.Assert(err == nil, "harness:open")
		verifrt.TraceShared(node, "f")
		rs, _ := node.AsLargeBytes()
		buf := make([]byte, 2)
		n, _ := rs.Read(buf)
		end, _ := rs.Seek(0, 2)
		return verifrt.TraceTake(), n*100 + int(end)
	}
	rawA, resA := run()
	rawB, resB := run()
	verifrt.Assert(resA == resB, "results:same-as-alone")
	raceFree(parseTrace(rawA), parseTrace(rawB), "race")
	verifrt.Reach("end")
}
