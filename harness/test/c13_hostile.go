package test

import (
	"io"

	unixfsnode "github.com/ipfs/go-unixfsnode"
	"github.com/ipfs/go-unixfsnode/file"
	"github.com/ipfs/go-unixfsnode/internal/verifmodel"
	"github.com/ipfs/go-unixfsnode/internal/verifrt"
	"github.com/ipld/go-ipld-prime"
	"github.com/ipld/go-ipld-prime/datamodel"
)

// hostileName returns an absent name or a name of 0..maxLen arbitrary bytes.
func hostileName(maxLen int) (bool, string) {
	lens := []int{-1, 0, 1, 2, 3, 4}
	if verifrt.Param("small", 1) == 1 {
		lens = []int{-1, 1, 2, 3, 4}
	}
	l := lens[verifrt.Choose(len(lens))]
	if l < 0 || l > maxLen {
		return false, ""
	}
	return true, verifrt.String(l)
}

func shardData(fanout uint64, bitfield []byte, hashType uint64) []byte {
	d := pbField(nil, 1, 5)
	d = pbBytes(d, 2, bitfield)
	d = pbField(d, 5, hashType)
	return pbField(d, 6, fanout)
}

func hostileFanout() uint64 {
	if verifrt.Param("small", 1) == 1 {
		return []uint64{8, 1024}[verifrt.Choose(2)]
	}
	return []uint64{8, 16, 256, 1024}[verifrt.Choose(4)]
}

// hostileShard stores a shard block with adversarial fields and returns its link.
func hostileShard(ls *ipld.LinkSystem, depth int, maxLinks int) datamodel.Link {
	fanout := hostileFanout()
	var bf []byte
	if verifrt.Param("small", 1) == 1 {
		bf = verifrt.Bytes(1 + verifrt.Choose(2)) // 1..2 bytes: equal or longer than fanout/8 for fanout 8
	} else {
		bf = verifrt.Bytes(verifrt.Choose(3))
	}
	nl := verifrt.Choose(maxLinks + 1)
	var links []pbLinkSpec
	for i := 0; i < nl; i++ {
		var s pbLinkSpec
		s.hasName, s.name = hostileName(4)
		if verifrt.Param("small", 1) == 0 {
			s.hasTsize = verifrt.Choose(2) == 1
			if s.hasTsize {
				s.tsize = verifrt.I64() & (1<<63 - 1) // the dag-pb codec cannot carry a negative Tsize
			}
		}
		switch c := verifrt.Choose(4); {
		case c == 0 || depth == 0:
			s.hash = storeRaw(ls, verifrt.Bytes(1))
		case c == 1:
			s.hash = hostileShard(ls, depth-1, 1)
		case c == 2:
			s.hash = fakeLink(40 + i) // not in the store
		default:
			s.hash = storeNode(ls, mkPBNode(false, nil, nil)) // dag-pb without UnixFS data
		}
		links = append(links, s)
	}
	return storeNode(ls, mkPBNode(true, shardData(fanout, bf, 0x22), links))
}

func hostileFile(ls *ipld.LinkSystem, depth int) datamodel.Link {
	small := verifrt.Param("small", 1) == 1
	leafOnly := small && depth == 0
	d := pbField(nil, 1, 2)
	if !leafOnly && verifrt.Choose(2) == 1 {
		n := 1
		if !small {
			n = verifrt.Choose(3)
		}
		d = pbBytes(d, 2, verifrt.Bytes(n))
	}
	if !leafOnly && verifrt.Choose(2) == 1 {
		d = pbField(d, 3, verifrt.U64()) // FileSize: any value incl. "negative"
	}
	nbs := 0
	if !leafOnly {
		nbs = verifrt.Choose(3)
	}
	for i := 0; i < nbs; i++ {
		d = pbField(d, 4, verifrt.U64())
	}
	nl := 1
	if !leafOnly {
		if small {
			nl = 1 + verifrt.Choose(2)
		} else {
			nl = verifrt.Choose(3)
		}
	}
	var links []pbLinkSpec
	for i := 0; i < nl; i++ {
		var s pbLinkSpec
		s.hasTsize = leafOnly || verifrt.Choose(2) == 1
		if s.hasTsize {
			s.tsize = verifrt.I64() & (1<<63 - 1) // the dag-pb codec cannot carry a negative Tsize
		}
		switch c := verifrt.Choose(3); {
		case c == 0 || depth == 0:
			n := 1
			if !small {
				n = verifrt.Choose(3)
			}
			s.hash = storeRaw(ls, verifrt.Bytes(n))
		case c == 1:
			s.hash = hostileFile(ls, depth-1)
		default:
			s.hash = fakeLink(50 + i)
		}
		links = append(links, s)
	}
	return storeNode(ls, mkPBNode(true, d, links))
}

const hostileStepBudget = 400000

func guarded(label string, f func()) {
	s0 := verifrt.Steps()
	panicked, pv := verifrt.Catch(f)
	if panicked {
		verifrt.Event(label + " panic: " + verifrt.PanicValueString(pv))
	}
	verifrt.Assert(!panicked, "hostile:"+label+"-no-panic")
	if !verifrt.Native() {
		verifrt.Assert(verifrt.Steps()-s0 <= hostileStepBudget, "hostile:"+label+"-bounded-work")
	}
}

// VerifHostileShard (C13): arbitrary decodable shard DAGs (fanout per shard from
// {8,16,1024} independently — parents and children may disagree —, bitfields of
// 0..2 arbitrary bytes, links with absent/short/arbitrary names, absent or
// arbitrary sizes, children that are shards, raw blocks, non-UnixFS nodes or
// missing) reified and exercised through every map operation: value or error,
// no panic, bounded work.
func VerifHostileShard() {
	st := verifmodel.NewStore()
	ls := st.LinkSystem()
	unixfsnode.AddUnixFSReificationToLinkSystem(ls)
	lnk := hostileShard(ls, verifrt.Param("depth", 1), verifrt.Param("links", 2))
	root, err := ls.Load(ipld.LinkContext{}, lnk, protoFor(lnk))
	verifrt.Assert(err == nil, "harness:root-loads")
	var node datamodel.Node
	preload := verifrt.Choose(2) == 1
	guarded("reify", func() {
		if preload {
			node, err = ls.KnownReifiers["unixfs-preload"](ipld.LinkContext{}, root, ls)
		} else {
			node, err = unixfsnode.Reify(ipld.LinkContext{}, root, ls)
		}
	})
	if err != nil || node == nil {
		verifrt.Reach("rejected")
		verifrt.Reach("end")
		return
	}
	switch verifrt.Choose(3) {
	case 0:
		guarded("length", func() { _ = node.Length() })
	case 1:
		keys := []string{"a", "bb", "0", ""}
		key := keys[verifrt.Choose(len(keys))]
		guarded("lookup", func() { _, _ = node.LookupByString(key) })
		guarded("lookup-by-segment", func() { _, _ = node.LookupBySegment(datamodel.PathSegmentOfString(key)) })
	case 2:
		guarded("iterate", func() {
			it := node.MapIterator()
			for n := 0; !it.Done(); n++ {
				verifrt.Assert(n <= 12, "hostile:iteration-terminates")
				if n > 12 {
					break
				}
				_, _, _ = it.Next()
			}
		})
		verifrt.Reach("iterated")
	}
	verifrt.Reach("end")
}

// VerifHostileFile (C13): arbitrary decodable file DAGs (any FileSize,
// BlockSizes, Tsize values, inconsistent counts, missing children) read and
// sought: value or error, no panic, bounded work.
func VerifHostileFile() {
	st := verifmodel.NewStore()
	ls := st.LinkSystem()
	unixfsnode.AddUnixFSReificationToLinkSystem(ls)
	lnk := hostileFile(ls, verifrt.Param("depth", 1))
	root, err := ls.Load(ipld.LinkContext{}, lnk, protoFor(lnk))
	verifrt.Assert(err == nil, "harness:root-loads")
	var node datamodel.Node
	preload := verifrt.Choose(2) == 1
	guarded("reify", func() {
		if preload {
			node, err = ls.KnownReifiers["unixfs-preload"](ipld.LinkContext{}, root, ls)
		} else {
			node, err = unixfsnode.Reify(ipld.LinkContext{}, root, ls)
		}
	})
	if err != nil || node == nil {
		verifrt.Reach("rejected")
		verifrt.Reach("end")
		return
	}
	lb, ok := node.(file.LargeBytesNode)
	verifrt.Assert(ok, "hostile:file-node")
	if verifrt.Choose(2) == 0 {
		guarded("asbytes", func() { _, _ = node.AsBytes() })
	} else {
		var rs io.ReadSeeker
		guarded("aslargebytes", func() { rs, _ = lb.AsLargeBytes() })
		off := int64(verifrt.IntRange(-(1 << 40), 1<<40))
		whence := verifrt.Choose(3)
		guarded("seek", func() { _, _ = rs.Seek(off, whence) })
		buf := make([]byte, 2)
		guarded("read", func() { _, _ = rs.Read(buf) })
		guarded("read2", func() { _, _ = rs.Read(buf) })
		verifrt.Reach("sought")
	}
	verifrt.Reach("end")
}
