package test

import (
	"time"
	"fmt"
	"io"

	unixfsnode "github.com/ipfs/go-unixfsnode"
	"github.com/ipfs/go-unixfsnode/file"
	"github.com/ipfs/go-unixfsnode/internal/verifmodel"
	"github.com/ipfs/go-unixfsnode/internal/verifrt"
	"github.com/ipld/go-ipld-prime"
	"github.com/ipld/go-ipld-prime/datamodel"
)

// hostileName returns an absent name or a name of 0..maxLen arbitrary bytes.
func hostileName(maxLen int) (bool, string) {
	lens := []int{-1, 0, 1, 2, 3, 4}
	if verifrt.Param("small", 1) == 1 {
		lens = []int{-1, 1, 2, 3, 4}
	}
	l := lens[verifrt.Choose(len(lens))]
	if l < 0 || l > maxLen {
		return false, ""
	}
	return true, verifrt.String(l)
}

func shardData(fanout uint64, bitfield []byte, hashType uint64) []byte {
	d := pbField(nil, 1, 5)
	d = pbBytes(d, 2, bitfield)
	d = pbField(d, 5, hashType)
	return pbField(d, 6, fanout)
}

func hostileFanout() uint64 {
	if verifrt.Param("small", 1) == 1 {
		return []uint64{8, 1024}[verifrt.Choose(2)]
	}
	return []uint64{8, 16, 256, 1024}[verifrt.Choose(4)]
}

// hostileShard stores a shard block with adversarial fields and returns its link.
func hostileShard(ls *ipld.LinkSystem, depth int, maxLinks int) datamodel.Link {
	fanout := hostileFanout()
	var bf []byte
	if verifrt.Param("small", 1) == 1 {
		bf = verifrt.Bytes(1 + verifrt.Choose(2)) // 1..2 bytes: equal or longer than fanout/8 for fanout 8
	} else {
		bf = verifrt.Bytes(verifrt.Choose(3))
	}
	nl := verifrt.Choose(maxLinks + 1)
	var links []pbLinkSpec
	for i := 0; i < nl; i++ {
		var s pbLinkSpec
		s.hasName, s.name = hostileName(4)
		if verifrt.Param("small", 1) == 0 {
			s.hasTsize = verifrt.Choose(2) == 1
			if s.hasTsize {
				s.tsize = verifrt.I64() & (1<<63 - 1) // the dag-pb codec cannot carry a negative Tsize
			}
		}
		switch c := verifrt.Choose(4); {
		case c == 0 || depth == 0:
			// (the bytes of an entry's target are irrelevant to the shard logic; distinct
			// concrete contents keep the model hasher from splitting on their equality)
			s.hash = storeRaw(ls, []byte{byte(0x60 + 8*depth + i)})
		case c == 1:
			s.hash = hostileShard(ls, depth-1, 1)
		case c == 2:
			s.hash = fakeLink(40 + i) // not in the store
		default:
			s.hash = storeNode(ls, mkPBNode(false, nil, nil)) // dag-pb without UnixFS data
		}
		links = append(links, s)
	}
	return storeNode(ls, mkPBNode(true, shardData(fanout, bf, 0x22), links))
}

// hostileFile stores a File node with adversarial metadata: inline data or not,
// FileSize absent or ANY value, 0..maxbs BlockSizes of ANY value (so their count may
// be smaller or larger than the number of links), 1..2 links with Tsize absent or
// ANY value, whose targets are raw blocks, dag-pb file leaves, missing blocks or
// (depth > 0) further such nodes.
func hostileFile(ls *ipld.LinkSystem, depth int) datamodel.Link {
	// slim=1 pins three dimensions (no inline data, two links, Tsize on both links or on
	// neither) to keep the quick program small; slim=0 explores them
	slim := verifrt.Param("slim", 0) == 1
	d := pbField(nil, 1, 2)
	if !slim && verifrt.Choose(2) == 1 {
		d = pbBytes(d, 2, verifrt.Bytes(1))
	}
	// vals=1: every size field is ANY 64-bit value; vals=0: the sizes are the plausible
	// value 1 (each child holds one byte), so that only counts and kinds vary
	anyVal := verifrt.Param("vals", 1) == 1
	val := func() uint64 {
		if anyVal {
			return verifrt.U64()
		}
		return 1
	}
	if verifrt.Choose(2) == 1 {
		d = pbField(d, 3, val()) // FileSize: any value incl. "negative"
	}
	nbs := verifrt.Choose(verifrt.Param("maxbs", 2) + 1)
	for i := 0; i < nbs; i++ {
		d = pbField(d, 4, val())
	}
	nl := 2
	if !slim {
		nl = 1 + verifrt.Choose(2)
	}
	allTsize := verifrt.Choose(2) == 1
	// Tsize goes through the dag-pb codec's minimal varint writer, which would split on
	// each of the 10 encoded lengths per value: ANY value of one of three magnitude
	// classes (1, 5 or 9 encoded bytes; the same class for all links of a node) instead
	tsizeLen := 1
	if anyVal && allTsize {
		tsizeLen = []int{1, 5, 9}[verifrt.Choose(3)]
	}
	var links []pbLinkSpec
	for i := 0; i < nl; i++ {
		var s pbLinkSpec
		s.hasTsize = allTsize
		if !slim && i > 0 {
			s.hasTsize = verifrt.Choose(2) == 1
		}
		if s.hasTsize {
			v := val() & (1<<63 - 1) // the dag-pb codec cannot carry a negative Tsize
			if anyVal {
				verifrt.Assume(v < 1<<uint(7*tsizeLen) && (tsizeLen == 1 || v >= 1<<uint(7*(tsizeLen-1))))
			}
			s.tsize = int64(v)
		}
		kinds := 3
		if depth > 0 {
			kinds = 4
		}
		kind := verifrt.Param("kind", -1) // >= 0: all children of that kind
		if kind < 0 {
			kind = verifrt.Choose(kinds)
		}
		switch kind {
		case 0:
			s.hash = storeRaw(ls, verifrt.Bytes(1))
		case 1: // dag-pb file leaf with one inline byte
			leaf := pbBytes(pbField(nil, 1, 2), 2, verifrt.Bytes(1))
			s.hash = storeNode(ls, mkPBNode(true, leaf, nil))
		case 2:
			s.hash = fakeLink(50 + i)
		default:
			s.hash = hostileFile(ls, depth-1)
		}
		links = append(links, s)
	}
	return storeNode(ls, mkPBNode(true, d, links))
}

const hostileStepBudget = 400000

func guarded(label string, f func()) {
	s0 := verifrt.Steps()
	panicked, pv := verifrt.Catch(f)
	if panicked {
		verifrt.Event(label + " panic: " + verifrt.PanicValueString(pv))
	}
	verifrt.Assert(!panicked, "hostile:"+label+"-no-panic")
	if !verifrt.Native() {
		verifrt.Assert(verifrt.Steps()-s0 <= hostileStepBudget, "hostile:"+label+"-bounded-work")
	}
}

// VerifHostileShard (C13): arbitrary decodable shard DAGs (fanout per shard from
// {8,16,1024} independently — parents and children may disagree —, bitfields of
// 0..2 arbitrary bytes, links with absent/short/arbitrary names, absent or
// arbitrary sizes, children that are shards, raw blocks, non-UnixFS nodes or
// missing) reified and exercised through every map operation: value or error,
// no panic, bounded work.
func VerifHostileShard() {
	st := verifmodel.NewStore()
	ls := st.LinkSystem()
	unixfsnode.AddUnixFSReificationToLinkSystem(ls)
	lnk := hostileShard(ls, verifrt.Param("depth", 1), verifrt.Param("links", 2))
	root, err := ls.Load(ipld.LinkContext{}, lnk, protoFor(lnk))
	verifrt.Assert(err == nil, "harness:root-loads")
	var node datamodel.Node
	preload := verifrt.Choose(2) == 1
	guarded("reify", func() {
		if preload {
			node, err = ls.KnownReifiers["unixfs-preload"](ipld.LinkContext{}, root, ls)
		} else {
			node, err = unixfsnode.Reify(ipld.LinkContext{}, root, ls)
		}
	})
	if err != nil || node == nil {
		verifrt.Reach("rejected")
		verifrt.Reach("end")
		return
	}
	switch verifrt.Choose(3) {
	case 0:
		guarded("length", func() { _ = node.Length() })
	case 1:
		keys := []string{"a", "bb", "0", ""}
		key := keys[verifrt.Choose(len(keys))]
		guarded("lookup", func() { _, _ = node.LookupByString(key) })
		guarded("lookup-by-segment", func() { _, _ = node.LookupBySegment(datamodel.PathSegmentOfString(key)) })
	case 2:
		guarded("iterate", func() {
			it := node.MapIterator()
			for n := 0; !it.Done(); n++ {
				verifrt.Assert(n <= 12, "hostile:iteration-terminates")
				if n > 12 {
					break
				}
				_, _, _ = it.Next()
			}
		})
		verifrt.Reach("iterated")
	}
	verifrt.Reach("end")
}

// VerifHostileFile (C13): arbitrary decodable file DAGs (any FileSize,
// BlockSizes, Tsize values, inconsistent counts, missing children) read and
// sought: value or error, no panic, bounded work.
func VerifHostileFile() {
	st := verifmodel.NewStore()
	ls := st.LinkSystem()
	unixfsnode.AddUnixFSReificationToLinkSystem(ls)
	lnk := hostileFile(ls, verifrt.Param("depth", 0))
	root, err := ls.Load(ipld.LinkContext{}, lnk, protoFor(lnk))
	verifrt.Assert(err == nil, "harness:root-loads")
	var node datamodel.Node
	preload := verifrt.Choose(2) == 1
	guarded("reify", func() {
		if preload {
			node, err = ls.KnownReifiers["unixfs-preload"](ipld.LinkContext{}, root, ls)
		} else {
			node, err = unixfsnode.Reify(ipld.LinkContext{}, root, ls)
		}
	})
	if err != nil || node == nil {
		verifrt.Reach("rejected")
		verifrt.Reach("end")
		return
	}
	lb, ok := node.(file.LargeBytesNode)
	verifrt.Assert(ok, "hostile:file-node")
	if verifrt.Choose(2) == 0 {
		guarded("asbytes", func() { _, _ = node.AsBytes() })
	} else {
		var rs io.ReadSeeker
		guarded("aslargebytes", func() { rs, _ = lb.AsLargeBytes() })
		rng := verifrt.Param("offrange", 1<<40)
		off := int64(verifrt.IntRange(-rng, rng))
		whence := verifrt.Choose(3)
		guarded("seek", func() { _, _ = rs.Seek(off, whence) })
		buf := make([]byte, 2)
		guarded("read", func() { _, _ = rs.Read(buf) })
		guarded("read2", func() { _, _ = rs.Read(buf) })
		verifrt.Reach("sought")
	}
	verifrt.Reach("end")
}

// VerifHostileDiamond (C13): a chain of D shards in which every shard links the next one
// from two slots (the same child CID twice) and the last shard is empty — D+1 blocks, no
// entries. Length, preload and iteration finish in work proportional to the blocks given
// (symbolic run: interpreted-instruction budget linear in D; native replay: wall-clock bound
// on a deeper chain), whatever the fanout.
func VerifHostileDiamond() {
	st := verifmodel.NewStore()
	ls := st.LinkSystem()
	unixfsnode.AddUnixFSReificationToLinkSystem(ls)
	depth := verifrt.Param("depth", 12)
	if verifrt.Native() {
		depth = 26
	}
	fanout := []uint64{8, 256}[verifrt.Choose(2)]
	pad := 1
	if fanout == 256 {
		pad = 2
	}
	bitfield := []byte{0x03} // slots 0 and 1
	child := storeNode(ls, mkPBNode(true, shardData(fanout, nil, 0x22), nil))
	if verifrt.Choose(2) == 1 {
		// or an empty bitfield byte on the last shard
		child = storeNode(ls, mkPBNode(true, shardData(fanout, []byte{0}, 0x22), nil))
	}
	for i := 0; i < depth; i++ {
		links := []pbLinkSpec{
			{hash: child, hasName: true, name: fmt.Sprintf("%0*X", pad, 0), hasTsize: true, tsize: 1},
			{hash: child, hasName: true, name: fmt.Sprintf("%0*X", pad, 1), hasTsize: true, tsize: 1},
		}
		child = storeNode(ls, mkPBNode(true, shardData(fanout, bitfield, 0x22), links))
	}
	root, err := ls.Load(ipld.LinkContext{}, child, protoFor(child))
	verifrt.Assert(err == nil, "harness:root-loads")
	op := verifrt.Choose(3)
	s0 := verifrt.Steps()
	var t0 time.Time
	if verifrt.Native() {
		t0 = time.Now()
	}
	panicked, pv := verifrt.Catch(func() {
		switch op {
		case 0:
			node, err := unixfsnode.Reify(ipld.LinkContext{}, root, ls)
			if err == nil {
				_ = node.Length()
			}
		case 1:
			_, _ = ls.KnownReifiers["unixfs-preload"](ipld.LinkContext{}, root, ls)
		default:
			node, err := unixfsnode.Reify(ipld.LinkContext{}, root, ls)
			if err == nil {
				it := node.MapIterator()
				for n := 0; !it.Done() && n < 4; n++ {
					_, _, _ = it.Next()
				}
			}
		}
	})
	if panicked {
		verifrt.Event("panic: " + verifrt.PanicValueString(pv))
	}
	verifrt.Assert(!panicked, "hostile:diamond-no-panic")
	if verifrt.Native() {
		verifrt.Assert(time.Since(t0) < 5*time.Second, "hostile:diamond-bounded-work")
	} else {
		// (about 6000 interpreted instructions per shard on the unchanged tree)
		verifrt.Assert(verifrt.Steps()-s0 <= 40000*(depth+1), "hostile:diamond-bounded-work")
	}
	verifrt.Reach("end")
}
