package test

import (
	"github.com/ipfs/go-unixfsnode/data"
	"github.com/ipfs/go-unixfsnode/data/builder"
	"github.com/ipfs/go-unixfsnode/internal/verifrt"
)

func VerifDbg1() {
	nb := data.Type.UnixFSData.NewBuilder()
	_, err := nb.BeginMap(2)
	verifrt.Assert(err == nil, "beginmap")
	n, err := builder.BuildUnixFS(func(b *builder.Builder) {
		builder.FileSize(b, 3)
	})
	if err != nil {
		verifrt.Event(err.Error())
	}
	verifrt.Assert(err == nil && n != nil, "build")
	verifrt.Reach("end")
}
