// Package test (overlay): cross-package harnesses (build -> store -> read).
package test

import (
	chunk "github.com/ipfs/boxo/chunker"
	"bytes"
	"io"
	"strconv"

	unixfsnode "github.com/ipfs/go-unixfsnode"
	"github.com/ipfs/go-cid"
	"github.com/ipfs/go-unixfsnode/data"
	"github.com/ipfs/go-unixfsnode/data/builder"
	"github.com/ipfs/go-unixfsnode/file"
	"github.com/ipfs/go-unixfsnode/internal/verifmodel"
	"github.com/ipfs/go-unixfsnode/internal/verifrt"
	dagpb "github.com/ipld/go-codec-dagpb"
	"github.com/ipld/go-ipld-prime"
	"github.com/ipld/go-ipld-prime/datamodel"
	cidlink "github.com/ipld/go-ipld-prime/linking/cid"
	"github.com/ipld/go-ipld-prime/node/basicnode"
)

func protoFor(l datamodel.Link) datamodel.NodePrototype {
	if cl, ok := l.(cidlink.Link); ok && cl.Cid.Prefix().Codec == 0x70 {
		return dagpb.Type.PBNode
	}
	return basicnode.Prototype.Any
}

// assumeDistinctChunks constrains the content so that its size-K chunks are
// pairwise different (the aliasing cases are explored by separate programs).
func assumeDistinctChunks(content []byte, K int) {
	if verifrt.Param("distinct", 1) == 0 {
		return // free aliasing: repeated chunks (and so repeated subtrees) are explorer-chosen
	}
	n := (len(content) + K - 1) / K
	for i := 0; i < n; i++ {
		for j := i + 1; j < n; j++ {
			a := content[i*K : min(len(content), (i+1)*K)]
			b := content[j*K : min(len(content), (j+1)*K)]
			if len(a) == len(b) {
				verifrt.Assume(!verifrt.BytesEq(a, b))
			}
		}
	}
}

// VerifFileRoundTrip (C01-B): every content of length 0..maxn*k, chunked with the
// real size-k splitter, built at link width w, read back through the direct
// reader, lazy reification or preload reification, as a whole value and with
// streamed reads of a chosen buffer size, gives exactly the content; the reported
// length (Seek to end, declared FileSize) is the content length.
func VerifFileRoundTrip() {
	w := verifrt.Param("w", 2)
	K := verifrt.Param("k", 1)
	maxN := verifrt.Param("maxn", 5)
	minLen := verifrt.Param("minlen", 0)
	old := builder.DefaultLinksPerBlock
	builder.DefaultLinksPerBlock = w
	defer func() { builder.DefaultLinksPerBlock = old }()

	L := minLen + verifrt.Choose(maxN*K+1-minLen)
	content := verifrt.Bytes(L)
	if verifrt.Param("distinct", 1) == 1 {
		assumeDistinctChunks(content, K)
	}
	st := verifmodel.NewStore()
	ls := st.LinkSystem()
	unixfsnode.AddUnixFSReificationToLinkSystem(ls)

	chunker := "size-" + strconv.Itoa(K)
	if verifrt.Param("varchunks", 0) == 1 {
		// ANY splitter: n chunks of explorer-chosen sizes 1..3 (see VerifFileStructure)
		n := 1 + verifrt.Choose(maxN)
		sizes := make([]int, n)
		L = 0
		for i := range sizes {
			sizes[i] = 1 + verifrt.Choose(3)
			L += sizes[i]
		}
		content = verifrt.Bytes(L)
		if verifrt.Native() {
			var model [][]byte
			at := 0
			for _, sz := range sizes {
				model = append(model, content[at:at+sz])
				at += sz
			}
			content, _, chunker = realiseWithRabin(model)
			L = len(content)
		} else {
			verifrt.Replace("github.com/ipfs/boxo/chunker.FromString", func(r io.Reader, _ string) (chunk.Splitter, error) {
				return &modelSplitter{r: r, sizes: sizes}, nil
			})
		}
		verifrt.Reach("variable-chunks")
	}
	switch verifrt.Param("chunker", 0) {
	case 1: // the default chunker under both spellings, and the content-defined chunkers, on
		// inputs below their chunk sizes (one chunk: a single raw leaf)
		chunker = []string{"", "default", "rabin", "buzhash", "rabin-16-32-64"}[verifrt.Choose(5)]
		verifrt.Reach("other-chunkers")
	}
	lnk, _, err := builder.BuildUnixFSFile(bytes.NewReader(content), chunker, ls)
	if err != nil {
		verifrt.Event("build error: " + err.Error())
	}
	verifrt.Assert(err == nil && lnk != nil, "build-ok")

	root, err := ls.Load(ipld.LinkContext{}, lnk, protoFor(lnk))
	verifrt.Assert(err == nil, "root-loads")

	var node datamodel.Node
	mode := verifrt.Choose(3)
	switch mode {
	case 0:
		node, err = file.NewUnixFSFile(nil, root, ls)
	case 1:
		node, err = unixfsnode.Reify(ipld.LinkContext{}, root, ls)
	case 2:
		node, err = ls.KnownReifiers["unixfs-preload"](ipld.LinkContext{}, root, ls)
	}
	verifrt.Assert(err == nil && node != nil, "open-ok")
	verifrt.Assert(node.Kind() == datamodel.Kind_Bytes, "bytes-kind")

	// whole value
	all, err := node.AsBytes()
	verifrt.Assert(err == nil, "asbytes-ok")
	verifrt.Assert(len(all) == L, "asbytes-len")
	verifrt.Assert(verifrt.BytesEq(all, content), "asbytes=content")

	// streamed
	if lb, ok := node.(file.LargeBytesNode); ok {
		verifrt.Reach("largebytes")
		rs, err := lb.AsLargeBytes()
		verifrt.Assert(err == nil, "aslargebytes-ok")
		bs := 1 + verifrt.Choose(verifrt.Param("maxbuf", 3))
		var got []byte
		buf := make([]byte, bs)
		for iter := 0; ; iter++ {
			verifrt.Assert(iter <= L+2, "read-terminates")
			n, err := rs.Read(buf)
			got = append(got, buf[:n]...)
			if err == io.EOF {
				break
			}
			verifrt.Assert(err == nil, "read-no-error")
		}
		verifrt.Assert(len(got) == L, "stream-len")
		verifrt.Assert(verifrt.BytesEq(got, content), "stream=content")
		end, err := rs.Seek(0, io.SeekEnd)
		verifrt.Assert(err == nil && end == int64(L), "seek-end=len")
	} else {
		verifrt.Reach("plain-bytes-node")
	}
	// declared FileSize of a dag-pb root
	if pbn, ok := root.(dagpb.PBNode); ok && pbn.FieldData().Exists() {
		ufd, err := data.DecodeUnixFSData(pbn.FieldData().Must().Bytes())
		verifrt.Assert(err == nil, "root-data-decodes")
		verifrt.Assert(ufd.FieldFileSize().Exists() && ufd.FieldFileSize().Must().Int() == int64(L), "filesize=len")
		verifrt.Reach("pb-root")
	}
	verifrt.Reach("end")
}

// keyLink turns a store key (link.Binary()) back into a link.
func keyLink(key string) datamodel.Link {
	c, err := cid.Cast([]byte(key))
	if err != nil {
		panic(err)
	}
	return cidlink.Link{Cid: c}
}

func keyLinkPrefix(codec uint64) cid.Prefix {
	return cid.Prefix{Version: 1, Codec: codec, MhType: 0x12, MhLength: 32}
}
