package test

import (
	"errors"
	"fmt"
	"hash"
	"sort"

	unixfsnode "github.com/ipfs/go-unixfsnode"
	"github.com/ipfs/go-unixfsnode/data"
	"github.com/ipfs/go-unixfsnode/data/builder"
	"github.com/ipfs/go-unixfsnode/hamt"
	"github.com/ipfs/go-unixfsnode/internal/verifmodel"
	"github.com/ipfs/go-unixfsnode/internal/verifrt"
	dagpb "github.com/ipld/go-codec-dagpb"
	"github.com/ipld/go-ipld-prime"
	"github.com/ipld/go-ipld-prime/datamodel"
	"github.com/ipld/go-ipld-prime/schema"
)

// hShape describes a hand-built, locally well-formed (not necessarily canonical)
// HAMT: bucket -> value entry (string name tag) or child shape.
type hShape struct {
	buckets []int
	value   map[int]string
	child   map[int]*hShape
}

func sh(items ...any) *hShape {
	s := &hShape{value: map[int]string{}, child: map[int]*hShape{}}
	for i := 0; i < len(items); i += 2 {
		b := items[i].(int)
		s.buckets = append(s.buckets, b)
		switch v := items[i+1].(type) {
		case string:
			s.value[b] = v
		case *hShape:
			s.child[b] = v
		}
	}
	sort.Ints(s.buckets)
	return s
}

// shapes: value links and sub-shards mixed, several sub-shards per shard, 3 and 4 levels.
var hShapes = []*hShape{
	sh(0, "a", 1, sh(0, "b", 7, "c"), 7, "d"),
	sh(1, sh(0, "a", 1, sh(2, "b", 5, "c")), 6, sh(3, "d", 4, "e"), 7, "f"),
	sh(0, sh(0, sh(0, "a", 1, "b"), 7, "c"), 3, "d", 5, sh(1, "e", 2, "f")),
	// four levels: root -> C -> G -> M, with G the last link of C and M not the last link of G
	sh(1, sh(2, "p", 4, sh(0, sh(3, "a", 4, "b"), 6, "c")), 7, "d"),
	sh(2, "a"),
}

func mirrorShape(s *hShape, fanout int) *hShape {
	m := &hShape{value: map[int]string{}, child: map[int]*hShape{}}
	for _, b := range s.buckets {
		nb := fanout - 1 - b
		m.buckets = append(m.buckets, nb)
		if v, ok := s.value[b]; ok {
			m.value[nb] = v
		} else {
			m.child[nb] = mirrorShape(s.child[b], fanout)
		}
	}
	sort.Ints(m.buckets)
	return m
}

type builtHamt struct {
	arbitraryNames bool // native replay only, see build
	shape   *hShape
	st      *verifmodel.Store
	ls      *ipld.LinkSystem
	root    datamodel.Link
	lg      int
	entries []*hEntry          // all value entries, DFS order
	path    map[string][]string // entry name -> keys of the shard blocks below the root on its path
	shards  []string           // non-root shard block keys in DFS link order
	parent  map[string]string  // shard key -> parent shard key ("" for children of the root)
	under   map[string][]string // shard key -> names of entries beneath it
	tab     *verifmodel.NameHashTable
}

func hashWithPrefix(prefix []int, lg int) []byte {
	var v uint64
	bits := 0
	for _, b := range prefix {
		v = v<<uint(lg) | uint64(b)
		bits += lg
	}
	v <<= uint(64 - bits)
	// arbitrary (symbolic) remaining bits
	rest := verifrt.U64()
	if bits > 0 {
		v |= rest >> uint(bits)
	} else {
		v = rest
	}
	out := make([]byte, 8)
	for i := 0; i < 8; i++ {
		out[i] = byte(v >> uint(56-8*i))
	}
	return out
}

func (bh *builtHamt) build(s *hShape, prefix []int, pathKeys []string, idx *int) (datamodel.Link, uint64) {
	pad := padWidth(bh.lg)
	nbytes := (1 << uint(bh.lg)) / 8
	bf := make([]byte, nbytes)
	var links []pbLinkSpec
	type pending struct {
		bucket int
		shape  *hShape
	}
	var total uint64
	var subs []pending
	for _, b := range s.buckets {
		bf[nbytes-1-b/8] |= 1 << uint(b%8)
		if tag, ok := s.value[b]; ok {
			e := &hEntry{link: fakeLink(*idx), tsize: uint64(*idx + 1)}
			e.hash = hashWithPrefix(append(append([]int{}, prefix...), b), bh.lg)
			if verifrt.Native() {
				if bits := (len(prefix) + 1) * bh.lg; bits <= 24 {
					e.name = verifmodel.FindName(*idx, e.hash, bits)
				} else {
					// no real name with that many given hash bits can be searched for: an
					// arbitrary name serves every operation that does not hash names
					// (iteration, Length, preload); by-name operations are not replayed
					e.name = fmt.Sprintf("n%d_any", *idx)
					bh.arbitraryNames = true
				}
			} else {
				e.name = tag + "n"
				if tag == "a" {
					e.name = "12" // an entry whose name parses as an integer (path segments may)
				}
				bh.tab.Set(e.name, e.hash)
			}
			*idx++
			bh.entries = append(bh.entries, e)
			bh.path[e.name] = append([]string{}, pathKeys...)
			links = append(links, pbLinkSpec{hash: e.link, hasName: true, name: fmt.Sprintf("%0*X", pad, b) + e.name, hasTsize: true, tsize: int64(e.tsize)})
			total += e.tsize
		} else {
			subs = append(subs, pending{b, s.child[b]})
		}
	}
	// s.buckets is sorted, so subs is in bucket (= link) order: DFS link order is known
	for _, p := range subs {
		// reserve the key slot first so that bh.shards is in DFS pre-order
		slot := len(bh.shards)
		bh.shards = append(bh.shards, "")
		before := len(bh.entries)
		// path keys of the child are filled after it is stored; use a marker
		marker := fmt.Sprintf("?%d", slot)
		l, sz := bh.build(p.shape, append(append([]int{}, prefix...), p.bucket), append(append([]string{}, pathKeys...), marker), idx)
		key := l.Binary()
		bh.shards[slot] = key
		for _, e := range bh.entries[before:] {
			for i, k := range bh.path[e.name] {
				if k == marker {
					bh.path[e.name][i] = key
				}
			}
			bh.under[key] = append(bh.under[key], e.name)
		}
		for i := slot + 1; i < len(bh.shards); i++ {
			if bh.parent[bh.shards[i]] == marker {
				bh.parent[bh.shards[i]] = key
			}
		}
		if len(pathKeys) > 0 {
			bh.parent[key] = pathKeys[len(pathKeys)-1]
		} else {
			bh.parent[key] = ""
		}
		links = append(links, pbLinkSpec{hash: l, hasName: true, name: fmt.Sprintf("%0*X", pad, p.bucket), hasTsize: true, tsize: int64(sz)})
		total += sz
	}
	for len(bf) > 0 && bf[0] == 0 {
		bf = bf[1:]
	}
	ufd, err := builder.BuildUnixFS(func(b *builder.Builder) {
		builder.DataType(b, data.Data_HAMTShard)
		builder.HashType(b, hamt.HashMurmur3)
		builder.Data(b, bf)
		builder.Fanout(b, uint64(1)<<uint(bh.lg))
	})
	verifrt.Assert(err == nil, "harness:shard-data")
	n := mkPBNode(true, data.EncodeUnixFSData(ufd), links)
	lnk := storeNode(bh.ls, n)
	blk, _ := bh.st.Get(lnk.Binary())
	return lnk, total + uint64(len(blk))
}

// shardKeyOf returns the store key of sub-shard `target` of the shape tree rooted
// at `root` (bh.shards holds the sub-shards in DFS pre-order).
func (bh *builtHamt) shardKeyOf(root, target *hShape, slot *int) string {
	idx := -1
	n := 0
	var walk func(s *hShape)
	walk = func(s *hShape) {
		for _, b := range s.buckets {
			if c, ok := s.child[b]; ok {
				if c == target {
					idx = n
				}
				n++
				walk(c)
			}
		}
	}
	walk(root)
	if idx < 0 {
		return "?"
	}
	return bh.shards[idx]
}

func buildHamtShape(which int, lg int) *builtHamt {
	st := verifmodel.NewStore()
	bh := &builtHamt{st: st, ls: st.LinkSystem(), lg: lg, path: map[string][]string{}, parent: map[string]string{}, under: map[string][]string{}, tab: &verifmodel.NameHashTable{}}
	idx := 0
	bh.shape = hShapes[which]
	if verifrt.Param("hi", 0) == 1 {
		// the same shapes in the highest buckets of the fanout (bucket b -> fanout-1-b):
		// with fanout 512 / 1024 the link-name prefixes have three hex digits and values >= 256
		bh.shape = mirrorShape(bh.shape, 1<<uint(lg))
	}
	bh.root, _ = bh.build(bh.shape, nil, nil, &idx)
	if !verifrt.Native() {
		tab := bh.tab
		verifrt.Replace("github.com/spaolacci/murmur3.New64", func() hash.Hash64 { return tab.New64() })
	}
	st.Loads = nil
	return bh
}

// byName is called before any by-name operation: those cannot be replayed natively when
// the tree's real names could not be searched for.
func (bh *builtHamt) byName() {
	if verifrt.Native() && bh.arbitraryNames {
		verifrt.Stop()
	}
}

func (bh *builtHamt) open(preload bool) (datamodel.Node, error) {
	root, err := bh.ls.Load(ipld.LinkContext{}, bh.root, dagpb.Type.PBNode)
	verifrt.Assert(err == nil, "root-loads")
	bh.st.Loads = nil
	unixfsnode.AddUnixFSReificationToLinkSystem(bh.ls)
	unixfsnode.AddUnixFSReificationToLinkSystem(bh.ls) // (adding it twice must be harmless)
	if preload {
		return bh.ls.KnownReifiers["unixfs-preload"](ipld.LinkContext{}, root, bh.ls)
	}
	return unixfsnode.Reify(ipld.LinkContext{}, root, bh.ls)
}

// VerifHamtReaderWellFormed (C08 reader half, C15, C05, C20): on hand-built,
// locally well-formed (non-canonical) shard trees — what any insert/remove
// history of the reference leaves behind — every member is found, a non-member is
// not, iteration yields each entry once with its un-prefixed name, Length is the
// entry count; a lookup loads exactly the shards on the key's path; iteration and
// Length load the shards in depth-first link order, each once.
func VerifHamtReaderWellFormed() {
	which := verifrt.Choose(len(hShapes))
	bh := buildHamtShape(which, verifrt.Param("lg", 3))
	node, err := bh.open(false)
	verifrt.Assert(err == nil, "reify-ok")
	verifrt.Assert(len(bh.st.Loads) == 0, "lazy-reify-fetches-nothing")
	iterateAll := func() {
		seen := map[string]int{}
		n := 0
		for it := node.MapIterator(); !it.Done(); n++ {
			verifrt.Assert(n <= len(bh.entries)+len(bh.shards)+1, "iter:terminates")
			k, v, err := it.Next()
			verifrt.Assert(err == nil, "iter:no-error")
			ks, _ := k.AsString()
			seen[ks]++
			l, _ := v.AsLink()
			for _, e := range bh.entries {
				if e.name == ks {
					verifrt.Assert(l == e.link, "iter:link-of-entry")
				}
			}
		}
		for _, e := range bh.entries {
			verifrt.Assert(seen[e.name] == 1, "iter:each-entry-once")
		}
		verifrt.Assert(n == len(bh.entries), "iter:count")
	}
	lookupAll := func() {
		bh.byName()
		for _, e := range bh.entries {
			v, err := node.LookupByString(e.name)
			verifrt.Assert(err == nil && v != nil, "lookup:member-found")
			if err == nil {
				got, _ := v.AsLink()
				verifrt.Assert(got == e.link, "lookup:member-link")
			}
		}
	}
	switch verifrt.Choose(6) {
	case 5: // the empty key (its real hash is 0: bucket 0 at every level) is never a member,
		// whatever kind of link sits in the slots it is routed through
		if !verifrt.Native() {
			bh.tab.Set("", make([]byte, 8))
		}
		bh.byName()
		_, err := node.LookupByString("")
		_, isNoField := err.(schema.ErrNoSuchField)
		verifrt.Assert(isNoField, "lookup:non-member-not-found")
		_, err = node.LookupBySegment(datamodel.PathSegmentOfString(""))
		_, isNoField = err.(schema.ErrNoSuchField)
		verifrt.Assert(isNoField, "lookup:non-member-not-found")
		verifrt.Reach("empty-key")
	case 3: // one node used for enumeration first, then by-name lookups of every member
		if verifrt.Choose(2) == 0 {
			iterateAll()
		} else {
			verifrt.Assert(node.Length() == int64(len(bh.entries)), "length=entries")
		}
		lookupAll()
		verifrt.Reach("enumerate-then-lookup")
	case 4: // one node used for a by-name lookup first (any member), then enumerated
		e := bh.entries[verifrt.Choose(len(bh.entries))]
		bh.byName()
		v, err := node.LookupByString(e.name)
		verifrt.Assert(err == nil && v != nil, "lookup:member-found")
		iterateAll()
		verifrt.Assert(node.Length() == int64(len(bh.entries)), "length=entries")
		lookupAll()
		verifrt.Reach("lookup-then-enumerate")
	case 0: // member lookups, cold cache each (fresh node per lookup is not needed: check load sets cumulatively)
		ei := verifrt.Choose(len(bh.entries))
		e := bh.entries[ei]
		bh.byName()
		v, err := node.LookupByString(e.name)
		verifrt.Assert(err == nil && v != nil, "lookup:member-found")
		got, _ := v.AsLink()
		verifrt.Assert(got == e.link, "lookup:member-link")
		// loads == shards on the path, in root-to-leaf order
		want := bh.path[e.name]
		first := firstRequests(bh.st) // which blocks, and the order of their first requests (not how often)
		verifrt.Assert(len(first) == len(want), "lookup:loads-only-path-shards")
		for i := range want {
			if i < len(first) {
				verifrt.Assert(first[i] == want[i], "lookup:loads-path-in-order")
			}
		}
		// all entry points agree
		v2, err2 := node.LookupBySegment(datamodel.PathSegmentOfString(e.name))
		verifrt.Assert(err2 == nil, "lookup:by-segment-agrees")
		got2, _ := v2.AsLink()
		verifrt.Assert(got2 == e.link, "lookup:by-segment-agrees")
		verifrt.Reach("member")
	case 1: // non-member: any hash whatsoever
		probe := verifrt.Bytes(8)
		name := "zz"
		if verifrt.Native() {
			bh.byName()
			if 4*bh.lg > 24 {
				verifrt.Stop()
			}
			name = verifmodel.FindName(77, probe, 4*bh.lg)
		} else {
			bh.tab.Set(name, probe)
		}
		_, err := node.LookupByString(name)
		_, isNoField := err.(schema.ErrNoSuchField)
		verifrt.Assert(isNoField, "lookup:non-member-not-found")
		// exactly the shards on the probe's hash path are fetched: descend while the
		// probe's bucket holds a sub-shard, stop at an empty bucket or a value link
		var want []string
		cur := bh.shape
		slot := 0
		for d := 0; cur != nil; d++ {
			// (comparisons against the occupied buckets only: with fanout 512 the probe's bucket
			// has hundreds of admissible values when it lands in an empty one)
			c := chunkOf(probe, d, bh.lg)
			b := -1
			for _, ob := range cur.buckets {
				if c == ob {
					b = ob
				}
			}
			next, isChild := cur.child[b]
			if !isChild {
				break
			}
			// key of that child: shards are recorded in DFS pre-order
			want = append(want, bh.shardKeyOf(bh.shape, next, &slot))
			cur = next
		}
		first := firstRequests(bh.st)
		verifrt.Assert(len(first) == len(want), "lookup:loads-only-path-shards")
		for i := range want {
			if i < len(first) {
				verifrt.Assert(first[i] == want[i], "lookup:loads-path-in-order")
			}
		}
		verifrt.Reach("non-member")
	case 2: // iteration + length
		seen := map[string]int{}
		it := node.MapIterator()
		n := 0
		for !it.Done() {
			verifrt.Assert(n <= len(bh.entries)+len(bh.shards)+1, "iter:terminates")
			k, v, err := it.Next()
			verifrt.Assert(err == nil, "iter:no-error")
			ks, _ := k.AsString()
			seen[ks]++
			var ent *hEntry
			for _, e := range bh.entries {
				if e.name == ks {
					ent = e
				}
			}
			verifrt.Assert(ent != nil, "iter:only-entries-with-unprefixed-names")
			if ent != nil {
				l, _ := v.AsLink()
				verifrt.Assert(l == ent.link, "iter:link-of-entry")
			}
			n++
		}
		for _, e := range bh.entries {
			verifrt.Assert(seen[e.name] == 1, "iter:each-entry-once")
		}
		verifrt.Assert(n == len(bh.entries), "iter:count")
		_, _, err := it.Next()
		verifrt.Assert(err != nil, "iter:overread-errors")
		// first requests: every shard, in DFS link order
		first := firstRequests(bh.st)
		verifrt.Assert(len(first) == len(bh.shards), "order:every-shard-requested")
		for i := range bh.shards {
			if i < len(first) {
				verifrt.Assert(first[i] == bh.shards[i], "order:depth-first-link-order")
			}
		}
		verifrt.Assert(node.Length() == int64(len(bh.entries)), "length=entries")
		verifrt.Assert(len(firstRequests(bh.st)) == len(bh.shards), "length:no-foreign-block")
		verifrt.Reach("iterate")
	}
	verifrt.Reach("end")
}

// VerifHamtPreload (C06, C20): the preloading view loads every shard once, in
// depth-first link order, and no entry target; a missing shard makes it fail.
func VerifHamtPreload() {
	which := verifrt.Choose(len(hShapes))
	bh := buildHamtShape(which, verifrt.Param("lg", 3))
	m := verifrt.Choose(len(bh.shards) + 1) // 0: none missing
	if m > 0 {
		miss := bh.shards[m-1]
		bh.st.FailLoad = func(key string, nth int) error {
			if key == miss {
				return verifmodel.ErrNotFound
			}
			return nil
		}
	}
	node, err := bh.open(true)
	if m > 0 {
		verifrt.Assert(err != nil, "fault:preload-errors")
		verifrt.Reach("missing")
	} else {
		verifrt.Assert(err == nil && node != nil, "preload-ok")
		// every shard is fetched, no entry target is (C06); first requests in DFS link order (C20)
		first := firstRequests(bh.st)
		verifrt.Assert(len(first) == len(bh.shards), "order:every-shard-requested-and-nothing-else")
		for i := range bh.shards {
			if i < len(first) {
				verifrt.Assert(first[i] == bh.shards[i], "order:depth-first-link-order")
			}
		}
		verifrt.Assert(node.Length() == int64(len(bh.entries)), "length=entries")
	}
	verifrt.Reach("end")
}

// VerifHamtMissingShards (C12): with any subset of the sub-shards unavailable,
// lookups crossing a missing shard report the load error (never not-found),
// other lookups are unaffected, and iteration terminates, yields exactly the
// entries not beneath a missing shard, once each, with one error per missing shard
// it meets.
func VerifHamtMissingShards() {
	which := verifrt.Choose(len(hShapes) - 1) // the last shape has no sub-shards
	bh := buildHamtShape(which, verifrt.Param("lg", 3))
	missing := map[string]bool{}
	nMissing := 0
	for _, k := range bh.shards {
		if verifrt.Choose(2) == 1 {
			missing[k] = true
			nMissing++
		}
	}
	if nMissing == 0 {
		verifrt.Reach("end")
		return
	}
	injected := loadFailure()
	bh.st.FailLoad = func(key string, nth int) error {
		if missing[key] {
			return injected
		}
		return nil
	}
	node, err := bh.open(false)
	verifrt.Assert(err == nil, "reify-ok")
	blocked := func(name string) bool {
		for _, k := range bh.path[name] {
			if missing[k] {
				return true
			}
		}
		return false
	}
	if verifrt.Choose(2) == 0 {
		e := bh.entries[verifrt.Choose(len(bh.entries))]
		v, err := node.LookupByString(e.name)
		if blocked(e.name) {
			_, isNoField := err.(schema.ErrNoSuchField)
			verifrt.Assert(err != nil && !isNoField, "fault:lookup-not-reported-as-not-found")
			verifrt.Assert(errors.Is(err, injected), "fault:lookup-reports-load-error")
			verifrt.Reach("lookup-blocked")
		} else {
			verifrt.Assert(err == nil, "fault:unaffected-lookup-ok")
			l, _ := v.AsLink()
			verifrt.Assert(l == e.link, "fault:unaffected-lookup-link")
		}
	} else {
		// missing shards that iteration actually meets: those with no missing ancestor
		met := 0
		for _, k := range bh.shards {
			if !missing[k] {
				continue
			}
			anc := false
			for p := bh.parent[k]; p != ""; p = bh.parent[p] {
				if missing[p] {
					anc = true
				}
			}
			if !anc {
				met++
			}
		}
		seen := map[string]int{}
		errs := 0
		it := node.MapIterator()
		steps := 0
		for !it.Done() {
			steps++
			verifrt.Assert(steps <= len(bh.entries)+2*len(bh.shards)+2, "fault:iteration-terminates")
			if steps > len(bh.entries)+2*len(bh.shards)+2 {
				break
			}
			k, _, err := it.Next()
			if err != nil {
				errs++
				verifrt.Assert(errors.Is(err, injected), "fault:iteration-reports-load-error")
				continue
			}
			ks, _ := k.AsString()
			seen[ks]++
		}
		for _, e := range bh.entries {
			if blocked(e.name) {
				verifrt.Assert(seen[e.name] == 0, "fault:entry-under-missing-shard-not-yielded")
			} else {
				verifrt.Assert(seen[e.name] == 1, "fault:reachable-entry-yielded-once")
			}
		}
		verifrt.Assert(errs == met, "fault:one-error-per-missing-shard-met")
		verifrt.Reach("iterate")
	}
	verifrt.Reach("end")
}
