package test

import (
	"bytes"

	unixfsnode "github.com/ipfs/go-unixfsnode"
	"github.com/ipfs/go-unixfsnode/data"
	"github.com/ipfs/go-unixfsnode/data/builder"
	quickbuilder "github.com/ipfs/go-unixfsnode/data/builder/quick"
	"github.com/ipfs/go-unixfsnode/internal/verifmodel"
	"github.com/ipfs/go-unixfsnode/internal/verifrt"
	dagpb "github.com/ipld/go-codec-dagpb"
	"github.com/ipld/go-ipld-prime"
	"github.com/ipld/go-ipld-prime/datamodel"
	"github.com/ipld/go-ipld-prime/schema"
)

// VerifPlainDirMap (C02, C11): a plain directory of 0..entries entries with
// arbitrary distinct non-empty names behaves as the map of its entries; its
// returned size is the cumulative size.
func VerifPlainDirMap() {
	k := verifrt.Choose(verifrt.Param("entries", 3) + 1)
	type ent struct {
		name string
		link datamodel.Link
		size uint64
	}
	var es []ent
	var links []dagpb.PBLink
	var sum uint64
	for i := 0; i < k; i++ {
		e := ent{name: verifrt.String(1 + verifrt.Choose(2)), link: fakeLink(i), size: verifrt.U64() & 0x3fff}
		if i > 0 && verifrt.Choose(2) == 1 {
			e.link = es[i-1].link // distinct names may point at one target
		}
		for _, o := range es {
			verifrt.Assume(!verifrt.StrEq(o.name, e.name))
		}
		es = append(es, e)
		l, err := builder.BuildUnixFSDirectoryEntry(e.name, int64(e.size), e.link)
		verifrt.Assert(err == nil, "entry-builds")
		links = append(links, l)
		sum += e.size
	}
	st := verifmodel.NewStore()
	ls := st.LinkSystem()
	lnk, size, err := builder.BuildUnixFSDirectory(links, ls)
	verifrt.Assert(err == nil, "build-ok")
	blk, _ := st.Get(lnk.Binary())
	verifrt.Assert(size == sum+uint64(len(blk)), "size:returned=cumulative")
	root, err := ls.Load(ipld.LinkContext{}, lnk, dagpb.Type.PBNode)
	verifrt.Assert(err == nil, "root-loads")
	node, err := unixfsnode.Reify(ipld.LinkContext{}, root, ls)
	verifrt.Assert(err == nil && node.Kind() == datamodel.Kind_Map, "reify-ok")
	verifrt.Assert(node.Length() == int64(k), "length=entries")
	for _, e := range es {
		v, err := node.LookupByString(e.name)
		verifrt.Assert(err == nil, "lookup:member-found")
		l, _ := v.AsLink()
		verifrt.Assert(l == e.link, "lookup:member-link")
	}
	probe := verifrt.String(1 + verifrt.Choose(2))
	for _, e := range es {
		verifrt.Assume(!verifrt.StrEq(e.name, probe))
	}
	_, err = node.LookupByString(probe)
	_, nf := err.(schema.ErrNoSuchField)
	verifrt.Assert(nf, "lookup:non-member-not-found")
	n := 0
	for it := node.MapIterator(); !it.Done(); n++ {
		verifrt.Assert(n < k, "iter:terminates")
		kn, vn, err := it.Next()
		verifrt.Assert(err == nil, "iter:no-error")
		ks, _ := kn.AsString()
		vl, _ := vn.AsLink()
		found := false
		for _, e := range es {
			if verifrt.ConcreteBool(verifrt.StrEq(e.name, ks)) {
				found = true
				verifrt.Assert(vl == e.link, "iter:link-of-entry")
			}
		}
		verifrt.Assert(found, "iter:only-entries")
	}
	verifrt.Assert(n == k, "iter:each-entry-once")
	verifrt.Reach("end")
}

// VerifDirSizes (C11): symlink and plain directory sizes.
func VerifDirSizes() {
	st := verifmodel.NewStore()
	ls := st.LinkSystem()
	switch verifrt.Choose(2) {
	case 0:
		target := verifrt.String(verifrt.Choose(4))
		lnk, size, err := builder.BuildUnixFSSymlink(target, ls)
		verifrt.Assert(err == nil, "build-ok")
		blk, ok := st.Get(lnk.Binary())
		verifrt.Assert(ok && size == uint64(len(blk)), "size:symlink=block-length")
		nd, err := ls.Load(ipld.LinkContext{}, lnk, dagpb.Type.PBNode)
		verifrt.Assert(err == nil, "loads")
		ufd, err := data.DecodeUnixFSData(nd.(dagpb.PBNode).FieldData().Must().Bytes())
		verifrt.Assert(err == nil && ufd.FieldDataType().Int() == data.Data_Symlink, "symlink:type")
		verifrt.Assert(verifrt.StrEq(string(ufd.FieldData().Must().Bytes()), target), "symlink:target")
		verifrt.Reach("symlink")
	case 1:
		// a directory over a real file: size = dir block + file's cumulative size
		content := verifrt.Bytes(3)
		assumeDistinctChunks(content, 1)
		old := builder.DefaultLinksPerBlock
		builder.DefaultLinksPerBlock = 2
		fl, fsz, err := builder.BuildUnixFSFile(bytes.NewReader(content), "size-1", ls)
		builder.DefaultLinksPerBlock = old
		verifrt.Assert(err == nil, "build-ok")
		e, _ := builder.BuildUnixFSDirectoryEntry("f", int64(fsz), fl)
		dl, dsz, err := builder.BuildUnixFSDirectory([]dagpb.PBLink{e}, ls)
		verifrt.Assert(err == nil, "build-ok")
		blk, _ := st.Get(dl.Binary())
		verifrt.Assert(dsz == fsz+uint64(len(blk)), "size:dir=block+entries")
		// independent recomputation of the file's cumulative size
		var total uint64
		var blocks []blockInfo
		dfsBlocks(st, ls, fl, 0, 0, &blocks)
		for _, b := range blocks {
			x, _ := st.Get(b.key)
			total += uint64(len(x))
		}
		verifrt.Assert(fsz == total, "size:file=sum-of-blocks(tree)")
		verifrt.Reach("plain")
	}
	verifrt.Reach("end")
}

// VerifQuickBuilder (C10, C16): the quick builder's map directory gives the same
// link under every Go-map iteration order, and stores children before parents.
func VerifQuickBuilder() {
	st := verifmodel.NewStore()
	ls := st.LinkSystem()
	ow := watchOrder(st, ls)
	var l1, l2 datamodel.Link
	build := func() datamodel.Link {
		var out datamodel.Link
		err := quickbuilder.Store(ls, func(b *quickbuilder.Builder) error {
			f1 := b.NewBytesFile([]byte{1})
			f2 := b.NewBytesFile([]byte{2, 3})
			f3 := b.NewBytesFile(nil)
			inner := b.NewMapDirectory(map[string]quickbuilder.Node{"x": f3})
			d := b.NewMapDirectory(map[string]quickbuilder.Node{"a": f1, "b": f2, "c": inner})
			out = d.Link()
			return nil
		})
		verifrt.Assert(err == nil, "build-ok")
		return out
	}
	l1 = build()
	verifrt.MapOrderNondet(true)
	l2 = build()
	verifrt.MapOrderNondet(false)
	verifrt.Assert(l1 == l2, "determinism:same-link")
	ow.check()
	ow.complete(l1.Binary())
	verifrt.Reach("end")
}

// VerifBuilderPermissions (C09-D4): the builder masks any mode to 12 bits, and the
// permissions survive encode/decode, default-mode elision included.
func VerifBuilderPermissions() {
	mode := verifrt.Int()
	typ := []int64{data.Data_Raw, data.Data_Directory, data.Data_File, data.Data_Metadata, data.Data_Symlink, data.Data_HAMTShard}[verifrt.Choose(6)]
	hasMode := verifrt.Choose(2) == 1
	n, err := builder.BuildUnixFS(func(b *builder.Builder) {
		builder.DataType(b, typ)
		if hasMode {
			builder.Permissions(b, mode)
		}
	})
	verifrt.Assert(err == nil, "node-builds")
	def := 0
	switch typ {
	case data.Data_File:
		def = 0o644
	case data.Data_Directory, data.Data_HAMTShard:
		def = 0o755
	}
	want := def
	if hasMode {
		want = mode & 0xFFF
		verifrt.Assert(n.FieldMode().Must().Int() == int64(mode&0xFFF), "perm:builder-masks-to-12-bits")
	}
	verifrt.Assert(n.Permissions() == want, "perm:low-12-bits-or-default")
	back, err := data.DecodeUnixFSData(data.EncodeUnixFSData(n))
	verifrt.Assert(err == nil, "roundtrip-decodes")
	verifrt.Assert(back.Permissions() == want, "perm:survive-roundtrip")
	verifrt.Reach("end")
}
