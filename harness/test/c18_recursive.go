package test

import (
	"io"
	"bytes"
	"errors"
	"strings"
	"io/fs"
	"os"
	"path/filepath"
	"syscall"
	"time"

	unixfsnode "github.com/ipfs/go-unixfsnode"
	"github.com/ipfs/go-unixfsnode/data"
	"github.com/ipfs/go-unixfsnode/data/builder"
	"github.com/ipfs/go-unixfsnode/internal/verifmodel"
	"github.com/ipfs/go-unixfsnode/internal/verifrt"
	dagpb "github.com/ipld/go-codec-dagpb"
	"github.com/ipld/go-ipld-prime"
	"github.com/ipld/go-ipld-prime/datamodel"
)

// fsNode is one node of the model filesystem. Its kind is carried by an arbitrary
// fs.FileMode word: the importer's own IsDir/Type/IsRegular tests classify it.
type fsNode struct {
	name     string
	mode     fs.FileMode
	content  []byte    // regular file
	target   string    // symlink
	children []*fsNode // directory
}

type fsInfo struct{ n *fsNode }

func (i fsInfo) Name() string               { return i.n.name }
func (i fsInfo) Size() int64                { return int64(len(i.n.content)) }
func (i fsInfo) Mode() fs.FileMode          { return i.n.mode }
func (i fsInfo) ModTime() time.Time         { return time.Time{} }
func (i fsInfo) IsDir() bool                { return i.n.mode.IsDir() }
func (i fsInfo) Sys() any                   { return nil }
func (i fsInfo) Type() fs.FileMode          { return i.n.mode.Type() }
func (i fsInfo) Info() (fs.FileInfo, error) { return i, nil }

type modelFS struct {
	root    *fsNode
	byPath  map[string]*fsNode
	files   map[*os.File]*bytes.Reader
	dirs    map[*os.File]*[]fs.DirEntry
	opens   map[string]int
	readdir map[string]int
	failAt  string // path whose os call fails
}

var errFS = errors.New("harness: filesystem error")

func (m *modelFS) index(n *fsNode, p string) {
	m.byPath[p] = n
	for _, c := range n.children {
		m.index(c, p+"/"+c.name)
	}
}

func (m *modelFS) install() {
	verifrt.Replace("os.Lstat", func(p string) (fs.FileInfo, error) {
		n, ok := m.byPath[p]
		if !ok || p == m.failAt {
			return nil, errFS
		}
		return fsInfo{n}, nil
	})
	verifrt.Replace("os.Stat", func(p string) (fs.FileInfo, error) {
		// Stat follows symbolic links (one level is enough for the modelled trees)
		n, ok := m.byPath[p]
		if !ok {
			return nil, errFS
		}
		if kindOf(n.mode) == 1 {
			q := n.target
			if len(q) == 0 || q[0] != '/' {
				q = p[:strings.LastIndexByte(p, '/')+1] + q
			}
			t, ok := m.byPath[q]
			if !ok {
				return nil, errFS
			}
			return fsInfo{t}, nil
		}
		return fsInfo{n}, nil
	})
	verifrt.Replace("os.ReadDir", func(p string) ([]fs.DirEntry, error) {
		m.readdir[p]++
		n, ok := m.byPath[p]
		if !ok {
			return nil, errFS
		}
		if kindOf(n.mode) == 1 { // the kernel resolves a symlink handed to readdir
			q := n.target
			if len(q) == 0 || q[0] != '/' {
				q = p[:strings.LastIndexByte(p, '/')+1] + q
			}
			if n, ok = m.byPath[q]; !ok {
				return nil, errFS
			}
		}
		var out []fs.DirEntry
		for _, c := range n.children {
			out = append(out, fsInfo{c})
		}
		return out, nil
	})
	verifrt.Replace("os.Readlink", func(p string) (string, error) {
		n, ok := m.byPath[p]
		if !ok {
			return "", errFS
		}
		return n.target, nil
	})
	verifrt.Replace("os.Open", func(p string) (*os.File, error) {
		m.opens[p]++
		n, ok := m.byPath[p]
		if !ok {
			return nil, errFS
		}
		f := new(os.File)
		m.files[f] = bytes.NewReader(n.content)
		if kindOf(n.mode) == 0 {
			// a directory handle: entries are handed out by (*os.File).ReadDir
			var ents []fs.DirEntry
			for _, c := range n.children {
				ents = append(ents, fsInfo{c})
			}
			m.dirs[f] = &ents
		}
		return f, nil
	})
	verifrt.Replace("(*os.File).ReadDir", func(f *os.File, n int) ([]fs.DirEntry, error) {
		rest, ok := m.dirs[f]
		if !ok {
			return nil, errFS
		}
		if n <= 0 || n >= len(*rest) {
			out := *rest
			*rest = nil
			if n > 0 && len(out) == 0 {
				return nil, io.EOF // the documented end-of-directory signal for n > 0
			}
			return out, nil
		}
		out := (*rest)[:n]
		*rest = (*rest)[n:]
		return out, nil
	})
	verifrt.Replace("(*os.File).Read", func(f *os.File, p []byte) (int, error) { return m.files[f].Read(p) })
	verifrt.Replace("(*os.File).Close", func(f *os.File) error { return nil })
}

// kindOf classifies a mode word exactly as the statement does.
func kindOf(m fs.FileMode) int {
	switch {
	case m&fs.ModeDir != 0:
		return 0 // directory
	case m&fs.ModeType == fs.ModeSymlink:
		return 1 // symlink
	case m&fs.ModeType == 0:
		return 2 // regular
	}
	return 3 // anything else
}

func genFSNode(name string, depth int, maxEntries int) *fsNode {
	n := &fsNode{name: name, mode: fs.FileMode(verifrt.U32())}
	k := verifrt.Concrete(kindOf(n.mode))
	switch k {
	case 0:
		if depth > 0 {
			ne := verifrt.Choose(maxEntries + 1)
			prev := byte('a' - 1)
			for i := 0; i < ne; i++ {
				c := verifrt.U8()
				verifrt.Assume(c > prev && c <= 'z') // distinct, sorted, plain names (ReadDir sorts)
				prev = c
				n.children = append(n.children, genFSNode(string([]byte{c}), depth-1, maxEntries))
			}
		}
	case 1:
		// a symlink target is a non-empty string without NUL (the kernel enforces both)
		n.target = verifrt.String(1 + verifrt.Choose(2))
		for i := 0; i < len(n.target); i++ {
			verifrt.Assume(n.target[i] != 0)
		}
	case 2:
		n.content = verifrt.Bytes(verifrt.Choose(3))
	}
	return n
}

// materialise creates the tree on a real filesystem (native replay).
func materialise(n *fsNode, p string) {
	switch kindOf(n.mode) {
	case 0:
		os.Mkdir(p, 0o755)
		for _, c := range n.children {
			materialise(c, filepath.Join(p, c.name))
		}
	case 1:
		os.Symlink(n.target, p)
	case 2:
		os.WriteFile(p, n.content, 0o644)
	default:
		syscall.Mkfifo(p, 0o644)
	}
}

func hasOther(n *fsNode) bool {
	if kindOf(n.mode) == 3 {
		return true
	}
	for _, c := range n.children {
		if hasOther(c) {
			return true
		}
	}
	return false
}

func checkImported(ls *ipld.LinkSystem, lnk datamodel.Link, n *fsNode) {
	nd, err := ls.Load(ipld.LinkContext{}, lnk, protoFor(lnk))
	verifrt.Assert(err == nil, "import:block-loads")
	switch kindOf(n.mode) {
	case 0:
		r, err := unixfsnode.Reify(ipld.LinkContext{}, nd, ls)
		verifrt.Assert(err == nil && r.Kind() == datamodel.Kind_Map, "import:directory-node")
		verifrt.Assert(r.Length() == int64(len(n.children)), "import:directory-lists-exactly-the-names")
		for _, c := range n.children {
			v, err := r.LookupByString(c.name)
			verifrt.Assert(err == nil, "import:entry-present")
			cl, _ := v.AsLink()
			checkImported(ls, cl, c)
		}
	case 1:
		pbn, ok := nd.(dagpb.PBNode)
		verifrt.Assert(ok && pbn.FieldData().Exists(), "import:symlink-node")
		ufd, err := data.DecodeUnixFSData(pbn.FieldData().Must().Bytes())
		verifrt.Assert(err == nil && ufd.FieldDataType().Int() == data.Data_Symlink, "import:symlink-type")
		verifrt.Assert(ufd.FieldData().Exists() && verifrt.StrEq(string(ufd.FieldData().Must().Bytes()), n.target), "import:symlink-target-text")
		verifrt.Assert(pbn.FieldLinks().Length() == 0, "import:symlink-not-followed")
	case 2:
		r, err := unixfsnode.Reify(ipld.LinkContext{}, nd, ls)
		verifrt.Assert(err == nil && r.Kind() == datamodel.Kind_Bytes, "import:file-node")
		b, err := r.AsBytes()
		verifrt.Assert(err == nil && len(b) == len(n.content) && verifrt.BytesEq(b, n.content), "import:file-bytes")
	}
}

// VerifRecursiveImport (C18): importing any tree of depth <= 2 with <= `entries`
// entries per directory, every node's kind given by an arbitrary mode word.
func VerifRecursiveImport() {
	maxEntries := verifrt.Param("entries", 2)
	root := genFSNode("r", verifrt.Param("depth", 1), maxEntries)
	st := verifmodel.NewStore()
	ls := st.LinkSystem()
	var lnk datamodel.Link
	var err error
	var m *modelFS
	if verifrt.Native() {
		dir, _ := os.MkdirTemp("", "verifc18")
		defer os.RemoveAll(dir)
		p := filepath.Join(dir, "r")
		materialise(root, p)
		lnk, _, err = builder.BuildUnixFSRecursive(p, ls)
	} else {
		m = &modelFS{root: root, byPath: map[string]*fsNode{}, files: map[*os.File]*bytes.Reader{}, dirs: map[*os.File]*[]fs.DirEntry{}, opens: map[string]int{}, readdir: map[string]int{}}
		m.index(root, "/t/r")
		m.install()
		lnk, _, err = builder.BuildUnixFSRecursive("/t/r", ls)
	}
	if hasOther(root) {
		verifrt.Reach("other-kind")
		verifrt.Assert(err != nil && lnk == nil, "import:other-kind-rejected")
		verifrt.Reach("end")
		return
	}
	verifrt.Assert(err == nil && lnk != nil, "import:ok")
	checkImported(ls, lnk, root)
	if verifrt.Param("twice", 1) == 1 {
		// the same tree imported again, into another (empty) store: the result must be
		// complete there too (nothing remembered from the first import stands in for a write)
		st2 := verifmodel.NewStore()
		ls2 := st2.LinkSystem()
		var lnk2 datamodel.Link
		if verifrt.Native() {
			dir, _ := os.MkdirTemp("", "verifc18b")
			defer os.RemoveAll(dir)
			p := filepath.Join(dir, "r")
			materialise(root, p)
			lnk2, _, err = builder.BuildUnixFSRecursive(p, ls2)
		} else {
			lnk2, _, err = builder.BuildUnixFSRecursive("/t/r", ls2)
		}
		verifrt.Assert(err == nil && lnk2 != nil, "import:ok")
		verifrt.Assert(lnk2 == lnk, "import:second-import-same-root")
		checkImported(ls2, lnk2, root)
		verifrt.Reach("second-import")
	}
	if m != nil {
		for p, n := range m.byPath {
			if kindOf(n.mode) == 1 {
				verifrt.Assert(m.opens[p] == 0 && m.readdir[p] == 0, "import:symlink-not-followed")
			}
		}
	}
	verifrt.Reach("end")
}

// cumulativeSizeOf walks the stored DAG under lnk (dag-pb links only) and returns the
// tree sum of its block lengths, asserting on the way that every link carries the
// cumulative size of its target.
func cumulativeSizeOf(st *verifmodel.Store, ls *ipld.LinkSystem, lnk datamodel.Link) uint64 {
	blk, ok := st.Get(lnk.Binary())
	verifrt.Assert(ok, "size:block-stored")
	total := uint64(len(blk))
	if protoFor(lnk) != dagpb.Type.PBNode {
		return total
	}
	nd, err := ls.Load(ipld.LinkContext{}, lnk, dagpb.Type.PBNode)
	verifrt.Assert(err == nil, "size:block-decodes")
	links := nd.(dagpb.PBNode).FieldLinks()
	for i := int64(0); i < links.Length(); i++ {
		l := links.Lookup(i)
		child := cumulativeSizeOf(st, ls, l.FieldHash().Link())
		verifrt.Assert(l.FieldTsize().Exists() && uint64(l.FieldTsize().Must().Int()) == child, "size:tsize=cumulative")
		total += child
	}
	return total
}

// VerifRecursiveImportSizes (C11): the recursive importer over a tree with a small file,
// a symlink, a nested directory and (big=1) a file of more than one default-sized chunk
// returns the cumulative size of the DAG and writes it on every link.
func VerifRecursiveImportSizes() {
	small := verifrt.Bytes(2)
	root := &fsNode{name: "r", mode: fs.ModeDir | 0o755, children: []*fsNode{
		{name: "a", mode: 0o644, content: small},
		{name: "d", mode: fs.ModeDir | 0o755, children: []*fsNode{{name: "x", mode: 0o644, content: []byte{9}}}},
		{name: "l", mode: fs.ModeSymlink | 0o777, target: "a"},
	}}
	if verifrt.Param("big", 0) == 1 {
		// 256 KiB + 1 byte: two chunks under the default chunker, hence an interior node
		big := make([]byte, 262144+1)
		for i := range big {
			big[i] = byte(i*7 + i>>8 + i>>16)
		}
		root.children = append(root.children, &fsNode{name: "z", mode: 0o644, content: big})
		verifrt.Reach("multi-chunk-file")
	}
	st := verifmodel.NewStore()
	ls := st.LinkSystem()
	var lnk datamodel.Link
	var size uint64
	var err error
	if verifrt.Native() {
		dir, _ := os.MkdirTemp("", "verifc11")
		defer os.RemoveAll(dir)
		p := filepath.Join(dir, "r")
		materialise(root, p)
		lnk, size, err = builder.BuildUnixFSRecursive(p, ls)
	} else {
		m := &modelFS{root: root, byPath: map[string]*fsNode{}, files: map[*os.File]*bytes.Reader{}, dirs: map[*os.File]*[]fs.DirEntry{}, opens: map[string]int{}, readdir: map[string]int{}}
		m.index(root, "/t/r")
		m.install()
		lnk, size, err = builder.BuildUnixFSRecursive("/t/r", ls)
	}
	verifrt.Assert(err == nil && lnk != nil, "import:ok")
	verifrt.Assert(size == cumulativeSizeOf(st, ls, lnk), "size:returned=cumulative")
	verifrt.Reach("end")
}
