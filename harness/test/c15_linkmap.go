package test

import (
	unixfsnode "github.com/ipfs/go-unixfsnode"
	"github.com/ipfs/go-unixfsnode/directory"
	"github.com/ipfs/go-unixfsnode/internal/verifmodel"
	"github.com/ipfs/go-unixfsnode/internal/verifrt"
	dagpb "github.com/ipld/go-codec-dagpb"
	"github.com/ipld/go-ipld-prime"
	"github.com/ipld/go-ipld-prime/datamodel"
	"github.com/ipld/go-ipld-prime/node/basicnode"
	"github.com/ipld/go-ipld-prime/schema"
)

// VerifLinkMapContract (C15): for every dag-pb link list of up to `links` links
// (names absent, empty, duplicated, any order, arbitrary bytes) viewed as a plain
// directory or as a generic link map, the map-node contract holds.
func VerifLinkMapContract() {
	k := verifrt.Choose(verifrt.Param("links", 2) + 1)
	var specs []pbLinkSpec
	for i := 0; i < k; i++ {
		s := pbLinkSpec{hash: fakeLink(i), hasTsize: verifrt.Choose(2) == 1, tsize: int64(i)}
		if verifrt.Choose(2) == 1 {
			s.hasName = true
			s.name = verifrt.String(verifrt.Choose(3))
		}
		specs = append(specs, s)
	}
	st := verifmodel.NewStore()
	ls := st.LinkSystem()
	asDir := verifrt.Choose(2) == 1
	var n dagpb.PBNode
	if asDir {
		n = mkPBNode(true, []byte{0x08, 0x01}, specs) // Data{Type: Directory}
	} else {
		n = mkPBNode(false, nil, specs)
	}
	node, err := unixfsnode.Reify(ipld.LinkContext{}, n, ls)
	verifrt.Assert(err == nil && node != nil, "reify-ok")
	verifrt.Assert(node.Kind() == datamodel.Kind_Map, "map-kind")
	verifrt.Assert(node.Length() == int64(k), "length=links")

	keyOf := func(s pbLinkSpec) string {
		if s.hasName {
			return s.name
		}
		return ""
	}
	// first link carrying a given key
	firstFor := func(key string) int {
		for i, s := range specs {
			if keyOf(s) == key {
				return i
			}
		}
		return -1
	}
	it := node.MapIterator()
	count := 0
	for !it.Done() {
		verifrt.Assert(count < k, "iter:at-most-length-pairs")
		kn, vn, err := it.Next()
		verifrt.Assert(err == nil, "iter:no-error")
		ks, _ := kn.AsString()
		verifrt.Assert(verifrt.StrEq(ks, keyOf(specs[count])), "iter:keys-in-link-order")
		vl, _ := vn.AsLink()
		verifrt.Assert(vl == specs[count].hash, "iter:value-is-link-hash")
		// every yielded key is found and resolves to a link that was yielded under that key
		found, err := node.LookupByString(ks)
		verifrt.Assert(err == nil && found != nil, "lookup:yielded-key-found")
		fl, _ := found.AsLink()
		fi := firstFor(ks)
		verifrt.Assert(fi >= 0 && fl == specs[fi].hash, "lookup:first-link-with-that-name")
		count++
	}
	verifrt.Assert(count == k, "iter:exactly-length-pairs")
	_, _, err = it.Next()
	verifrt.Assert(err != nil, "iter:overread-errors")

	// all lookup entry points agree, for a member key or a never-yielded key
	probe := verifrt.String(verifrt.Choose(3))
	want := firstFor(probe)
	r1, e1 := node.LookupByString(probe)
	var keyNode datamodel.Node = basicnode.NewString(probe)
	if verifrt.Choose(2) == 1 {
		// a key of the dag-pb string type, as the directory's own iterators hand out
		keyNode, _ = dagpb.Type.String.FromString(probe)
		verifrt.Reach("dagpb-string-key")
	}
	r2, e2 := node.LookupByNode(keyNode)
	r3, e3 := node.LookupBySegment(datamodel.PathSegmentOfString(probe))
	var r4 dagpb.Link
	pk, _ := dagpb.Type.String.FromString(probe)
	switch d := node.(type) {
	case directory.UnixFSBasicDir:
		r4 = d.Lookup(pk)
	case unixfsnode.PathedPBNode:
		r4 = d.Lookup(pk)
	default:
		verifrt.Fail("reify:unexpected-node-type")
	}
	if want < 0 {
		verifrt.Reach("absent-key")
		_, nf1 := e1.(schema.ErrNoSuchField)
		_, nf2 := e2.(schema.ErrNoSuchField)
		_, nf3 := e3.(schema.ErrNoSuchField)
		verifrt.Assert(nf1 && nf2 && nf3 && r4 == nil, "lookup:never-yielded-key-not-found")
	} else {
		verifrt.Reach("present-key")
		verifrt.Assert(e1 == nil && e2 == nil && e3 == nil && r4 != nil, "lookup:entry-points-agree")
		l1, _ := r1.AsLink()
		l2, _ := r2.AsLink()
		l3, _ := r3.AsLink()
		l4, _ := r4.AsLink()
		h := specs[want].hash
		verifrt.Assert(l1 == h && l2 == h && l3 == h && l4 == h, "lookup:entry-points-agree")
	}
	verifrt.Reach("end")
}
