package test

import (
	"fmt"
	"hash"
	"sort"

	unixfsnode "github.com/ipfs/go-unixfsnode"
	"github.com/ipfs/go-unixfsnode/data"
	"github.com/ipfs/go-unixfsnode/data/builder"
	"github.com/ipfs/go-unixfsnode/hamt"
	"github.com/ipfs/go-unixfsnode/internal/verifmodel"
	"github.com/ipfs/go-unixfsnode/internal/verifrt"
	"github.com/ipfs/go-cid"
	dagpb "github.com/ipld/go-codec-dagpb"
	"github.com/ipld/go-ipld-prime"
	"github.com/ipld/go-ipld-prime/datamodel"
	cidlink "github.com/ipld/go-ipld-prime/linking/cid"
	"github.com/ipld/go-ipld-prime/schema"
	mh "github.com/multiformats/go-multihash"
)

// fakeLink returns a distinct, valid CIDv1/raw link that is not in the store
// (directory entries' targets are opaque to the directory code).
func fakeLink(i int) datamodel.Link {
	d := make([]byte, 32)
	d[0] = 0xE7
	d[31] = byte(i + 1)
	m, _ := mh.Encode(d, mh.SHA2_256)
	return cidlink.Link{Cid: cid.NewCidV1(cid.Raw, m)}
}

type hEntry struct {
	name  string
	hash  []byte // 8 bytes (symbolic)
	link  datamodel.Link
	tsize uint64
}

func chunkOf(h []byte, depth, lg int) int {
	var v uint64
	for _, b := range h {
		v = v<<8 | uint64(b)
	}
	return int(v>>uint(64-(depth+1)*lg)) & (1<<uint(lg) - 1)
}

// refShard is the reference HAMT node (DESIGN Appendix B).
type refShard struct {
	buckets []int // sorted, used
	value   map[int]*hEntry
	child   map[int]*refShard
}

func refHAMT(entries []*hEntry, depth, lg int) *refShard {
	s := &refShard{value: map[int]*hEntry{}, child: map[int]*refShard{}}
	groups := map[int][]*hEntry{}
	for _, e := range entries {
		b := verifrt.Concrete(chunkOf(e.hash, depth, lg)) // complete case split on the bucket
		groups[b] = append(groups[b], e)
	}
	for b := range groups {
		s.buckets = append(s.buckets, b)
	}
	sort.Ints(s.buckets)
	for _, b := range s.buckets {
		g := groups[b]
		if len(g) == 1 {
			s.value[b] = g[0]
		} else {
			s.child[b] = refHAMT(g, depth+1, lg)
		}
	}
	return s
}

func padWidth(lg int) int { return (lg + 3) / 4 }

// matchShard checks the stored shard block under lnk against the reference and
// returns its cumulative size.
func matchShard(st *verifmodel.Store, ls *ipld.LinkSystem, lnk datamodel.Link, ref *refShard, lg int) uint64 {
	blk, ok := st.Get(lnk.Binary())
	verifrt.Assert(ok, "hamt:block-stored")
	verifrt.Assert(lnk.(cidlink.Link).Cid.Prefix().Codec == 0x70 && lnk.(cidlink.Link).Cid.Prefix().Version == 1, "hamt:dagpb-cidv1")
	nd, err := ls.Load(ipld.LinkContext{}, lnk, dagpb.Type.PBNode)
	verifrt.Assert(err == nil, "hamt:decodes")
	pbn := nd.(dagpb.PBNode)
	verifrt.Assert(pbn.FieldData().Exists(), "hamt:has-data")
	ufd, err := data.DecodeUnixFSData(pbn.FieldData().Must().Bytes())
	verifrt.Assert(err == nil, "hamt:data-decodes")
	verifrt.Assert(ufd.FieldDataType().Int() == data.Data_HAMTShard, "hamt:type-shard")
	verifrt.Assert(ufd.FieldHashType().Exists() && ufd.FieldHashType().Must().Int() == 0x22, "hamt:hashtype-murmur3")
	verifrt.Assert(ufd.FieldFanout().Exists() && ufd.FieldFanout().Must().Int() == int64(1)<<uint(lg), "hamt:fanout")
	verifrt.Assert(!ufd.FieldFileSize().Exists() && !ufd.FieldMode().Exists() && !ufd.FieldMtime().Exists() && ufd.FieldBlockSizes().Length() == 0, "hamt:no-extra-fields")
	// bitfield: exactly the used buckets, big-endian, leading zero bytes dropped
	nbytes := (1 << uint(lg)) / 8
	want := make([]byte, nbytes)
	for _, b := range ref.buckets {
		want[nbytes-1-b/8] |= 1 << uint(b%8)
	}
	for len(want) > 0 && want[0] == 0 {
		want = want[1:]
	}
	verifrt.Assert(ufd.FieldData().Exists(), "hamt:has-bitfield")
	got := ufd.FieldData().Must().Bytes()
	verifrt.Assert(len(got) == len(want) && verifrt.BytesEq(got, want), "hamt:bitfield=used-buckets")
	links := pbn.FieldLinks()
	verifrt.Assert(links.Length() == int64(len(ref.buckets)), "hamt:link-count")
	total := uint64(len(blk))
	pad := padWidth(lg)
	for i, b := range ref.buckets {
		l := links.Lookup(int64(i))
		prefix := fmt.Sprintf("%0*X", pad, b)
		verifrt.Assert(l.FieldName().Exists(), "hamt:link-named")
		name := l.FieldName().Must().String()
		if e, ok := ref.value[b]; ok {
			verifrt.Assert(name == prefix+e.name, "hamt:value-link-name")
			verifrt.Assert(l.FieldHash().Link() == e.link, "hamt:value-link-target")
			verifrt.Assert(l.FieldTsize().Exists() && uint64(l.FieldTsize().Must().Int()) == e.tsize, "hamt:value-link-tsize")
			total += e.tsize
		} else {
			verifrt.Assert(name == prefix, "hamt:shard-link-name")
			sub := matchShard(st, ls, l.FieldHash().Link(), ref.child[b], lg)
			verifrt.Assert(l.FieldTsize().Exists() && uint64(l.FieldTsize().Must().Int()) == sub, "hamt:shard-link-tsize=cumulative")
			total += sub
		}
	}
	return total
}

// makeEntries creates k entries with symbolic hashes and sizes. In the symbolic
// run the names are fixed and murmur3.New64 is replaced by the name-hash table;
// natively, real names are searched whose murmur3 hashes agree with the witness on
// the bits the bounded depth can consume.
func makeEntries(k, lg, maxDepth int, small bool) ([]*hEntry, *verifmodel.NameHashTable) {
	tab := &verifmodel.NameHashTable{}
	var es []*hEntry
	for i := 0; i < k; i++ {
		e := &hEntry{hash: verifrt.Bytes(8), link: fakeLink(i), tsize: verifrt.U64() & (1<<uint(verifrt.Param("sizebits", 7)) - 1)}
		if i > 0 && verifrt.Param("sharetargets", 1) == 1 && verifrt.Choose(2) == 1 {
			// distinct names may point at one target (two identical files)
			e.link = es[i-1].link
		}
		if small {
			// restrict buckets on every consumable level to {0,1,F-1}: min, adjacent, max
			for d := 0; d < maxDepth; d++ {
				c := chunkOf(e.hash, d, lg)
				if d < verifrt.Param("shareprefix", 0) {
					// all entries share their first `shareprefix` buckets: one insertion
					// creates a chain of that many new shards, later entries run down it
					verifrt.Assume(c == 1)
					continue
				}
				if verifrt.Param("fixedbuckets", 0) == 1 {
					// one collision pattern only (entries share level 0, split at level 1):
					// used when the sizes, not the buckets, are the symbolic dimension
					if d == 0 {
						verifrt.Assume(c == 1)
					} else {
						verifrt.Assume(c == i%(1<<uint(lg)))
					}
				} else {
					verifrt.Assume(c == 0 || c == 1 || c == 1<<uint(lg)-1)
				}
			}
		}
		if verifrt.Native() {
			e.name = verifmodel.FindName(i, e.hash, maxDepth*lg)
		} else {
			e.name = string(rune('a'+i)) + "x" + string(rune('p'+i)) // no name is a suffix, prefix or extension of another
			tab.Set(e.name, e.hash)
		}
		es = append(es, e)
	}
	// distinct names hash apart within maxDepth levels (deeper collisions are the
	// subject of the deep-chain harness)
	for i := 0; i < k; i++ {
		for j := i + 1; j < k; j++ {
			same := true
			for d := 0; d < maxDepth; d++ {
				same = verifrt.And(same, chunkOf(es[i].hash, d, lg) == chunkOf(es[j].hash, d, lg))
			}
			verifrt.Assume(!same)
		}
	}
	if !verifrt.Native() {
		verifrt.Replace("github.com/spaolacci/murmur3.New64", func() hash.Hash64 { return tab.New64() })
	}
	return es, tab
}

func entryLinks(es []*hEntry) []dagpb.PBLink {
	var out []dagpb.PBLink
	for _, e := range es {
		l, err := builder.BuildUnixFSDirectoryEntry(e.name, int64(e.tsize), e.link)
		verifrt.Assert(err == nil, "entry-builds")
		out = append(out, l)
	}
	return out
}

// VerifShardedDir (C02, C08, C11, C15): the sharded builder's output equals the
// reference HAMT and, reified, behaves as the map of its entries.
func VerifShardedDir() {
	lg := verifrt.Param("lg", 3)
	k := verifrt.Param("entries", 2)
	maxDepth := verifrt.Param("maxdepth", 2)
	es, tab := makeEntries(k, lg, maxDepth, verifrt.Param("small", 1) == 1)
	// a non-member probe
	probe := &hEntry{hash: verifrt.Bytes(8)}
	// unrelated, or related to an entry's name as proper suffix / proper prefix /
	// extension (its hash is arbitrary, so it may be routed to that entry's bucket)
	variant := 0
	if k == 0 {
		// the empty directory: only probes that do not refer to an entry
		variant = []int{0, 4}[verifrt.Choose(2)]
		verifrt.Reach("empty-directory")
	} else {
		variant = verifrt.Choose(5)
	}
	if variant == 4 {
		// the empty key: never a member; its real murmur3 hash is 0 (bucket 0 at every level)
		probe.name = ""
		for i := range probe.hash {
			verifrt.Assume(probe.hash[i] == 0)
		}
		if !verifrt.Native() {
			tab.Set("", probe.hash)
		}
	} else if verifrt.Native() {
		if variant == 0 {
			probe.name = verifmodel.FindName(99, probe.hash, maxDepth*lg)
		} else {
			es[0].name, probe.name = verifmodel.FindRelatedNames(0, es[0].hash, probe.hash, maxDepth*lg, variant)
		}
	} else {
		switch variant {
		case 0:
			probe.name = "zz"
		case 1:
			probe.name = es[0].name[1:]
		case 2:
			probe.name = es[0].name[:len(es[0].name)-1]
		default:
			probe.name = es[0].name + "q"
		}
		tab.Set(probe.name, probe.hash)
	}
	st := verifmodel.NewStore()
	ls := st.LinkSystem()
	lnk, size, err := builder.BuildUnixFSShardedDirectory(1<<uint(lg), hamt.HashMurmur3, entryLinks(es), ls)
	verifrt.Assert(err == nil && lnk != nil, "build-ok")

	ref := refHAMT(es, 0, lg)
	total := matchShard(st, ls, lnk, ref, lg)
	verifrt.Assert(size == total, "hamt:returned-size=cumulative")

	// read side
	root, err := ls.Load(ipld.LinkContext{}, lnk, dagpb.Type.PBNode)
	verifrt.Assert(err == nil, "root-loads")
	st.Loads = nil
	node, err := unixfsnode.Reify(ipld.LinkContext{}, root, ls)
	verifrt.Assert(err == nil, "reify-ok")
	verifrt.Assert(len(st.Loads) == 0, "lazy-reify-fetches-nothing")
	verifrt.Assert(node.Kind() == datamodel.Kind_Map, "map-kind")
	for _, e := range es {
		v, err := node.LookupByString(e.name)
		verifrt.Assert(err == nil && v != nil, "lookup:member-found")
		got, err := v.AsLink()
		verifrt.Assert(err == nil && got == e.link, "lookup:member-link")
	}
	_, err = node.LookupByString(probe.name)
	_, isNoField := err.(schema.ErrNoSuchField)
	verifrt.Assert(isNoField, "lookup:non-member-not-found")
	verifrt.Assert(node.Length() == int64(k), "length=entries")
	seen := map[string]int{}
	it := node.MapIterator()
	for n := 0; !it.Done(); n++ {
		verifrt.Assert(n <= k, "iter:terminates")
		kn, vn, err := it.Next()
		verifrt.Assert(err == nil, "iter:no-error")
		ks, _ := kn.AsString()
		seen[ks]++
		found := false
		for _, e := range es {
			if e.name == ks {
				found = true
				got, _ := vn.AsLink()
				verifrt.Assert(got == e.link, "iter:link-of-entry")
			}
		}
		verifrt.Assert(found, "iter:only-entries")
	}
	for _, e := range es {
		verifrt.Assert(seen[e.name] == 1, "iter:each-entry-once")
	}
	verifrt.Reach("end")
}
