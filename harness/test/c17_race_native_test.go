package test

import (
	"bytes"
	"fmt"
	"io"
	"sync"
	"testing"

	unixfsnode "github.com/ipfs/go-unixfsnode"
	"github.com/ipfs/go-unixfsnode/data/builder"
	"github.com/ipfs/go-unixfsnode/file"
	"github.com/ipfs/go-unixfsnode/hamt"
	dagpb "github.com/ipld/go-codec-dagpb"
	"github.com/ipld/go-ipld-prime"
	cidlink "github.com/ipld/go-ipld-prime/linking/cid"
	"github.com/ipld/go-ipld-prime/storage/memstore"
)

// TestVerifC17Race is the native confirmation of a race reported by the symbolic
// schedule query: the same read-only operations run from several goroutines on
// one shared node, under the Go race detector (go test -race).
func TestVerifC17Race(t *testing.T) {
	ls := cidlink.DefaultLinkSystem()
	st := &memstore.Store{}
	ls.SetReadStorage(st)
	ls.SetWriteStorage(st)
	var entries []dagpb.PBLink
	var names []string
	for i := 0; i < 200; i++ {
		name := fmt.Sprintf("entry-%03d", i)
		names = append(names, name)
		fl, sz, err := builder.BuildUnixFSFile(bytes.NewReader([]byte(name)), "size-4", &ls)
		if err != nil {
			t.Fatal(err)
		}
		e, _ := builder.BuildUnixFSDirectoryEntry(name, int64(sz), fl)
		entries = append(entries, e)
	}
	root, _, err := builder.BuildUnixFSShardedDirectory(8, hamt.HashMurmur3, entries, &ls)
	if err != nil {
		t.Fatal(err)
	}
	for round := 0; round < 20; round++ {
		nd, err := ls.Load(ipld.LinkContext{}, root, dagpb.Type.PBNode)
		if err != nil {
			t.Fatal(err)
		}
		node, err := unixfsnode.Reify(ipld.LinkContext{}, nd, &ls)
		if err != nil {
			t.Fatal(err)
		}
		var wg sync.WaitGroup
		for g := 0; g < 8; g++ {
			wg.Add(1)
			go func(g int) {
				defer wg.Done()
				switch g % 3 {
				case 0:
					for i := g; i < len(names); i += 8 {
						if _, err := node.LookupByString(names[i]); err != nil {
							t.Errorf("lookup %s: %v", names[i], err)
						}
					}
				case 1:
					if node.Length() != int64(len(names)) {
						t.Errorf("length %d", node.Length())
					}
				case 2:
					n := 0
					for it := node.MapIterator(); !it.Done(); n++ {
						if _, _, err := it.Next(); err != nil {
							t.Errorf("iterate: %v", err)
							return
						}
					}
					if n != len(names) {
						t.Errorf("iterated %d", n)
					}
				}
			}(g)
		}
		wg.Wait()
	}
	// a shared multi-block file node with one reader per goroutine
	content := bytes.Repeat([]byte("0123456789"), 50)
	fl, _, err := builder.BuildUnixFSFile(bytes.NewReader(content), "size-16", &ls)
	if err != nil {
		t.Fatal(err)
	}
	fnd, _ := ls.Load(ipld.LinkContext{}, fl, dagpb.Type.PBNode)
	fnode, err := file.NewUnixFSFile(nil, fnd, &ls)
	if err != nil {
		t.Fatal(err)
	}
	var wg sync.WaitGroup
	for g := 0; g < 8; g++ {
		wg.Add(1)
		go func() {
			defer wg.Done()
			b, err := fnode.AsBytes()
			if err != nil || !bytes.Equal(b, content) {
				t.Errorf("concurrent read mismatch: %v", err)
			}
		}()
	}
	wg.Wait()	// fresh multi-level file nodes (interior dag-pb children), cold concurrent first reads
	old := builder.DefaultLinksPerBlock
	builder.DefaultLinksPerBlock = 4
	defer func() { builder.DefaultLinksPerBlock = old }()
	deep := bytes.Repeat([]byte("abcdefghijklmnopqrstuvwxyz012345"), 64)
	dl, _, err := builder.BuildUnixFSFile(bytes.NewReader(deep), "size-32", &ls)
	if err != nil {
		t.Fatal(err)
	}
	for round := 0; round < 100; round++ {
		dnd, _ := ls.Load(ipld.LinkContext{}, dl, dagpb.Type.PBNode)
		dnode, err := file.NewUnixFSFile(nil, dnd, &ls)
		if err != nil {
			t.Fatal(err)
		}
		var wg sync.WaitGroup
		for g := 0; g < 4; g++ {
			wg.Add(1)
			go func() {
				defer wg.Done()
				b, err := dnode.AsBytes()
				if err != nil || !bytes.Equal(b, deep) {
					t.Errorf("concurrent deep read mismatch: %v", err)
				}
			}()
		}
		wg.Wait()
	}	// a file as other writers may leave it: no BlockSizes over dag-pb leaves (children
	// must be opened to learn their sizes); fresh node per round, readers from different offsets
	var flinks []pbLinkSpec
	want := []byte("0123456789abcdef")
	for i := range want {
		leaf := pbField(pbBytes(pbField(nil, 1, 2), 2, want[i:i+1]), 3, 1)
		flinks = append(flinks, pbLinkSpec{hash: storeNode(&ls, mkPBNode(true, leaf, nil)), hasName: true, hasTsize: true, tsize: 8})
	}
	nb := storeNode(&ls, mkPBNode(true, pbField(pbField(nil, 1, 2), 3, uint64(len(want))), flinks))
	for round := 0; round < 100; round++ {
		nnd, _ := ls.Load(ipld.LinkContext{}, nb, dagpb.Type.PBNode)
		nnode, err := file.NewUnixFSFile(nil, nnd, &ls)
		if err != nil {
			t.Fatal(err)
		}
		var wg sync.WaitGroup
		for g := 0; g < 4; g++ {
			wg.Add(1)
			go func(g int) {
				defer wg.Done()
				rs, err := nnode.AsLargeBytes()
				if err != nil {
					t.Errorf("reader: %v", err)
					return
				}
				rs.Seek(int64(g), io.SeekStart)
				b, err := io.ReadAll(rs)
				if err != nil || !bytes.Equal(b, want[g:]) {
					t.Errorf("concurrent read without blocksizes mismatch: %v", err)
				}
			}(g)
		}
		wg.Wait()
	}
}
