package test

import (
	"bytes"
	"io"
	"strconv"

	"github.com/ipfs/go-unixfsnode/data/builder"
	"github.com/ipfs/go-unixfsnode/hamt"
	"github.com/ipfs/go-unixfsnode/internal/verifmodel"
	"github.com/ipfs/go-unixfsnode/internal/verifrt"
	dagpb "github.com/ipld/go-codec-dagpb"
)

// permute returns the entries in an order chosen by the explorer (every
// permutation is a path).
func permute(in []dagpb.PBLink) []dagpb.PBLink {
	rest := append([]dagpb.PBLink{}, in...)
	var out []dagpb.PBLink
	for len(rest) > 0 {
		i := verifrt.Choose(len(rest))
		out = append(out, rest[i])
		rest = append(rest[:i:i], rest[i+1:]...)
	}
	return out
}

// VerifShardedDirDeterminism (C10): building the same entry set twice — entries
// supplied in any order, Go map iteration inside the shard builder in any order —
// returns the identical link and size (2-safety inside one path; links are equal
// iff the encoded blocks are, by the collision-free model hash).
func VerifShardedDirDeterminism() {
	lg := verifrt.Param("lg", 3)
	k := verifrt.Param("entries", 3)
	maxDepth := verifrt.Param("maxdepth", 2)
	es, _ := makeEntries(k, lg, maxDepth, true)
	links := entryLinks(es)
	st := verifmodel.NewStore()
	ls := st.LinkSystem()
	l1, s1, err := builder.BuildUnixFSShardedDirectory(1<<uint(lg), hamt.HashMurmur3, links, ls)
	verifrt.Assert(err == nil, "build1-ok")
	verifrt.MapOrderNondet(true)
	l2, s2, err := builder.BuildUnixFSShardedDirectory(1<<uint(lg), hamt.HashMurmur3, permute(links), ls)
	verifrt.MapOrderNondet(false)
	verifrt.Assert(err == nil, "build2-ok")
	verifrt.Assert(l1 == l2, "determinism:same-link")
	verifrt.Assert(s1 == s2, "determinism:same-size")
	verifrt.Reach("end")
}

// VerifPlainDirDeterminism (C10): same for the plain directory builder.
func VerifPlainDirDeterminism() {
	k := verifrt.Param("entries", 3)
	var links []dagpb.PBLink
	for i := 0; i < k; i++ {
		name := string(rune('a'+i)) + "n"
		target := fakeLink(i)
		if i > 0 && verifrt.Choose(2) == 1 {
			target = fakeLink(i - 1) // distinct names may point at one target
		}
		l, err := builder.BuildUnixFSDirectoryEntry(name, int64(verifrt.U64()&0x7f), target)
		verifrt.Assert(err == nil, "entry-builds")
		links = append(links, l)
	}
	st := verifmodel.NewStore()
	ls := st.LinkSystem()
	l1, s1, err := builder.BuildUnixFSDirectory(links, ls)
	verifrt.Assert(err == nil, "build1-ok")
	l2, s2, err := builder.BuildUnixFSDirectory(permute(links), ls)
	verifrt.Assert(err == nil, "build2-ok")
	verifrt.Assert(l1 == l2, "determinism:same-link")
	verifrt.Assert(s1 == s2, "determinism:same-size")
	verifrt.Reach("end")
}

// fragReader delivers its content in fragments of explorer-chosen sizes.
type fragReader struct {
	data  []byte
	max   int
	empty bool // an empty fragment (0, nil) has been delivered
}

func (f *fragReader) Read(p []byte) (int, error) {
	if len(f.data) == 0 {
		return 0, io.EOF
	}
	if !f.empty && verifrt.Choose(2) == 1 {
		// the io.Reader contract allows (0, nil): nothing happened, not the end
		f.empty = true
		verifrt.Reach("empty-fragment")
		return 0, nil
	}
	n := 1 + verifrt.Choose(min(f.max, min(len(p), len(f.data))))
	copy(p, f.data[:n])
	f.data = f.data[n:]
	if len(f.data) == 0 && verifrt.Choose(2) == 1 {
		// the io.Reader contract allows the last bytes to arrive together with io.EOF
		verifrt.Reach("eof-with-data")
		return n, io.EOF
	}
	return n, nil
}

// VerifFileFragmentation (C10): the file builder returns the same link and size
// whatever fragment sizes the source reader delivers.
func VerifFileFragmentation() {
	w := verifrt.Param("w", 2)
	K := verifrt.Param("k", 2)
	maxL := verifrt.Param("maxlen", 5)
	old := builder.DefaultLinksPerBlock
	builder.DefaultLinksPerBlock = w
	defer func() { builder.DefaultLinksPerBlock = old }()
	L := verifrt.Choose(maxL + 1)
	content := verifrt.Bytes(L)
	assumeDistinctChunks(content, K)
	st := verifmodel.NewStore()
	ls := st.LinkSystem()
	chunker := "size-" + strconv.Itoa(K)
	switch verifrt.Param("chunker", 0) {
	case 1: // the default chunker under both of its spellings (256 KiB chunks: single-leaf files)
		chunker = []string{"", "default"}[verifrt.Choose(2)]
		verifrt.Reach("default-chunker")
	case 2: // content-defined chunkers (inputs below their minimum chunk size: one chunk)
		chunker = []string{"rabin", "buzhash", "rabin-16-32-64"}[verifrt.Choose(3)]
		verifrt.Reach("content-defined-chunker")
	}
	l1, s1, err := builder.BuildUnixFSFile(bytes.NewReader(content), chunker, ls)
	verifrt.Assert(err == nil, "build1-ok")
	l2, s2, err := builder.BuildUnixFSFile(&fragReader{data: content, max: K + 1}, chunker, ls)
	verifrt.Assert(err == nil, "build2-ok")
	verifrt.Assert(l1 == l2, "determinism:same-link")
	verifrt.Assert(s1 == s2, "determinism:same-size")
	verifrt.Reach("end")
}
