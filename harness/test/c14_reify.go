package test

import (
	"io"

	unixfsnode "github.com/ipfs/go-unixfsnode"
	"github.com/ipfs/go-unixfsnode/file"
	"github.com/ipfs/go-unixfsnode/internal/verifmodel"
	"github.com/ipfs/go-unixfsnode/internal/verifrt"
	dagpb "github.com/ipld/go-codec-dagpb"
	"github.com/ipld/go-ipld-prime"
	"github.com/ipld/go-ipld-prime/adl"
	"github.com/ipld/go-ipld-prime/datamodel"
	"github.com/ipld/go-ipld-prime/fluent/qp"
	cidlink "github.com/ipld/go-ipld-prime/linking/cid"
	"github.com/ipld/go-ipld-prime/node/basicnode"
)

// ---- a small proto writer for hostile / arbitrary UnixFS Data payloads ----

func pbVarint(b []byte, v uint64) []byte { // fixed 10-byte form: no branching on v
	for i := 0; i < 9; i++ {
		b = append(b, byte(v>>uint(7*i))|0x80)
	}
	return append(b, byte(v>>63)&1)
}

func pbField(b []byte, num int, v uint64) []byte { return pbVarint(append(b, byte(num<<3)), v) }
func pbBytes(b []byte, num int, p []byte) []byte {
	b = append(b, byte(num<<3|2), byte(len(p)))
	return append(b, p...)
}

type pbLinkSpec struct {
	hash     datamodel.Link
	hasName  bool
	name     string
	hasTsize bool
	tsize    int64
}

func mkPBNode(hasData bool, data []byte, links []pbLinkSpec) dagpb.PBNode {
	nd, err := qp.BuildMap(dagpb.Type.PBNode, 2, func(ma datamodel.MapAssembler) {
		qp.MapEntry(ma, "Links", qp.List(int64(len(links)), func(la datamodel.ListAssembler) {
			for _, l := range links {
				l := l
				qp.ListEntry(la, qp.Map(3, func(ma datamodel.MapAssembler) {
					qp.MapEntry(ma, "Hash", qp.Link(l.hash))
					if l.hasName {
						qp.MapEntry(ma, "Name", qp.String(l.name))
					}
					if l.hasTsize {
						qp.MapEntry(ma, "Tsize", qp.Int(l.tsize))
					}
				}))
			}
		}))
		if hasData {
			qp.MapEntry(ma, "Data", qp.Bytes(data))
		}
	})
	verifrt.Assert(err == nil, "harness:pbnode-builds")
	return nd.(dagpb.PBNode)
}

// storeNode puts a dag-pb node into the store through the real encoder and
// returns its link and the decoded-from-storage node (what a reader would see).
func storeNode(ls *ipld.LinkSystem, n datamodel.Node) datamodel.Link {
	lnk, err := ls.Store(ipld.LinkContext{}, cidlink.LinkPrototype{Prefix: keyLinkPrefix(0x70)}, n)
	verifrt.Assert(err == nil, "harness:store")
	return lnk
}

func storeRaw(ls *ipld.LinkSystem, b []byte) datamodel.Link {
	lnk, err := ls.Store(ipld.LinkContext{}, cidlink.LinkPrototype{Prefix: keyLinkPrefix(0x55)}, basicnode.NewBytes(b))
	verifrt.Assert(err == nil, "harness:store-raw")
	return lnk
}

func substrateOf(n datamodel.Node) (datamodel.Node, bool) {
	a, ok := n.(adl.ADL)
	if !ok {
		return nil, false
	}
	return a.Substrate(), true
}

// VerifReifyTotal (C14): reification of any node is total and type-directed, and
// the substrate of the result is the original node.
func VerifReifyTotal() {
	st := verifmodel.NewStore()
	ls := st.LinkSystem()
	unixfsnode.AddUnixFSReificationToLinkSystem(ls)
	reifier := "unixfs"
	if verifrt.Choose(2) == 1 {
		reifier = "unixfs-preload"
	}
	reify := func(n datamodel.Node) (out datamodel.Node, err error, panicked bool) {
		panicked, _ = verifrt.Catch(func() { out, err = ls.KnownReifiers[reifier](ipld.LinkContext{}, n, ls) })
		return
	}
	class := verifrt.Choose(4)
	switch class {
	case 0: // not a dag-pb node: returned unchanged
		var n datamodel.Node
		switch verifrt.Choose(4) {
		case 0:
			n = basicnode.NewBytes(verifrt.Bytes(2))
		case 1:
			n = basicnode.NewString("s")
		case 2:
			n = basicnode.NewInt(verifrt.I64())
		default:
			n, _ = qp.BuildMap(basicnode.Prototype.Map, 1, func(ma datamodel.MapAssembler) {
				qp.MapEntry(ma, "Data", qp.Bytes([]byte{8, 2}))
			})
		}
		out, err, p := reify(n)
		verifrt.Assert(!p, "reify:no-panic")
		verifrt.Assert(err == nil && out == n, "reify:non-dagpb-unchanged")
		verifrt.Reach("non-dagpb")
	case 1: // dag-pb without Data, or with undecodable Data: a name-addressable link map
		target := storeRaw(ls, []byte{1})
		nl := verifrt.Choose(2)
		var links []pbLinkSpec
		for i := 0; i < nl; i++ {
			links = append(links, pbLinkSpec{hash: target, hasName: true, name: "k", hasTsize: true, tsize: 1})
		}
		hasData := verifrt.Choose(2) == 1
		var data []byte
		if hasData {
			// a payload the UnixFS decoder rejects: truncated varint / wrong wire type / no type
			switch verifrt.Choose(3) {
			case 0:
				data = []byte{0x08, 0x80 | verifrt.U8()}
			case 1:
				data = []byte{0x0a, 0x00} // field 1 with bytes wire type
			default:
				data = pbField(nil, 3, verifrt.U64()) // filesize only: required type missing
			}
		}
		n := mkPBNode(hasData, data, links)
		out, err, p := reify(n)
		verifrt.Assert(!p, "reify:no-panic")
		verifrt.Assert(err == nil && out != nil, "reify:no-data-ok")
		verifrt.Assert(out.Kind() == datamodel.Kind_Map, "reify:link-map-kind")
		sub, ok := substrateOf(out)
		verifrt.Assert(ok && sub == datamodel.Node(n), "reify:substrate-is-original")
		if nl > 0 {
			v, err := out.LookupByString("k")
			verifrt.Assert(err == nil, "reify:link-map-lookup")
			l, _ := v.AsLink()
			verifrt.Assert(l == target, "reify:link-map-lookup-target")
		}
		verifrt.Reach("link-map")
	case 2, 3: // dag-pb with a decodable UnixFS message of arbitrary type
		typ := verifrt.I64()
		var data []byte // the fields after DataType (DataType itself is placed below)
		inline := verifrt.Bytes(verifrt.Choose(3))
		hasInline := verifrt.Choose(2) == 1
		if hasInline {
			data = pbBytes(data, 2, inline)
		}
		hasHash := verifrt.Choose(2) == 1
		hashType := uint64(0x22)
		if hasHash {
			if verifrt.Choose(2) == 1 {
				hashType = verifrt.U64()
			}
			data = pbField(data, 5, hashType)
		}
		hasFanout := verifrt.Choose(2) == 1
		var fanout uint64
		if hasFanout {
			fanout = verifrt.U64()
			data = pbField(data, 6, fanout)
		}
		// wire order of the fields is free in protobuf: DataType first (canonical), DataType
		// last, or an unknown field leading the message
		switch verifrt.Choose(3) {
		case 0:
			data = append(pbField(nil, 1, uint64(typ)), data...)
		case 1:
			data = pbField(data, 1, uint64(typ))
			verifrt.Reach("type-not-first")
		default:
			data = append(pbField(pbField(nil, 15, 7), 1, uint64(typ)), data...)
			verifrt.Reach("type-not-first")
		}
		var links []pbLinkSpec
		withLinks := class == 3 && reifier == "unixfs"
		if withLinks {
			links = append(links, pbLinkSpec{hash: storeRaw(ls, []byte{7}), hasName: true, name: "00", hasTsize: true, tsize: 1})
		}
		n := mkPBNode(true, data, links)
		out, err, p := reify(n)
		verifrt.Assert(!p, "reify:no-panic")
		switch {
		case typ == 0 || typ == 2: // Raw, File
			verifrt.Assert(err == nil && out != nil, "reify:file-ok")
			verifrt.Assert(out.Kind() == datamodel.Kind_Bytes, "reify:file-is-bytes")
			sub, ok := substrateOf(out)
			verifrt.Assert(ok && sub == datamodel.Node(n), "reify:substrate-is-original")
			if !withLinks {
				b, err := out.AsBytes()
				verifrt.Assert(err == nil, "reify:inline-file-reads")
				if hasInline {
					verifrt.Assert(len(b) == len(inline) && verifrt.BytesEq(b, inline), "reify:inline-file-content")
				} else {
					verifrt.Assert(len(b) == 0, "reify:empty-file-content")
				}
			}
			verifrt.Reach("file")
		case typ == 1: // Directory
			verifrt.Assert(err == nil && out != nil && out.Kind() == datamodel.Kind_Map, "reify:directory-is-map")
			sub, ok := substrateOf(out)
			verifrt.Assert(ok && sub == datamodel.Node(n), "reify:substrate-is-original")
			verifrt.Reach("directory")
		case typ == 3 || typ == 4: // Metadata, Symlink
			verifrt.Assert(err == nil && out != nil && out.Kind() == datamodel.Kind_Map, "reify:link-map-kind")
			sub, ok := substrateOf(out)
			verifrt.Assert(ok && sub == datamodel.Node(n), "reify:substrate-is-original")
			verifrt.Reach("symlink-metadata")
		case typ == 5: // HAMTShard
			nbytes := 0
			if hasInline {
				nbytes = len(inline)
			}
			valid := hasHash && hashType == 0x22 && hasInline && hasFanout &&
				fanout >= 8 && fanout <= 1024 && fanout&(fanout-1) == 0 && uint64(nbytes) <= fanout/8
			if valid {
				verifrt.Assert(err == nil && out != nil && out.Kind() == datamodel.Kind_Map, "reify:shard-is-map")
				sub, ok := substrateOf(out)
				verifrt.Assert(ok && sub == datamodel.Node(n), "reify:substrate-is-original")
				verifrt.Reach("shard-valid")
			} else if !withLinks || !(hasHash && hashType == 0x22 && hasInline && hasFanout) {
				verifrt.Assert(err != nil, "reify:invalid-shard-params-error")
				verifrt.Reach("shard-invalid")
			}
		default:
			verifrt.Assert(err != nil, "reify:unknown-type-error")
			verifrt.Reach("unknown-type")
		}
	}
	verifrt.Reach("end")
}

var _ = io.EOF
var _ file.LargeBytesNode
