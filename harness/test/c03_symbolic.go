package test

import (
	"bytes"

	unixfsnode "github.com/ipfs/go-unixfsnode"
	"github.com/ipfs/go-unixfsnode/data/builder"
	"github.com/ipfs/go-unixfsnode/hamt"
	"github.com/ipfs/go-unixfsnode/internal/verifmodel"
	"github.com/ipfs/go-unixfsnode/internal/verifrt"
	dagpb "github.com/ipld/go-codec-dagpb"
	"github.com/ipld/go-ipld-prime"
	"github.com/ipld/go-ipld-prime/datamodel"
	"github.com/ipld/go-ipld-prime/linking"
	"github.com/ipld/go-ipld-prime/traversal"
	"github.com/ipld/go-ipld-prime/traversal/selector"
	selbuilder "github.com/ipld/go-ipld-prime/traversal/selector/builder"
)

// VerifPathSymbolicSegment (C03): the tree is root{ "d": dir{ <name>: file b, "zz": file c } }
// with <name> an arbitrary entry name (namelen ASCII bytes, no slash) and the path is
// "d/<seg>" with <seg> arbitrary bytes of seglen (no slash): the walk matches exactly
// file b when seg == name, exactly file c when seg == "zz", and nothing otherwise —
// so no transformation of a segment (decoding, trimming, case folding, cleaning)
// between the path text and the directory lookup goes unnoticed.
func VerifPathSymbolicSegment() {
	nl := verifrt.Param("namelen", 2)
	sl := verifrt.Param("seglen", 2)
	name := verifrt.String(nl)
	for i := 0; i < nl; i++ {
		verifrt.Assume(name[i] != '/' && name[i] < 0x80)
	}
	verifrt.Assume(!verifrt.StrEq(name, "zz"))
	seg := verifrt.String(sl)
	for i := 0; i < sl; i++ {
		verifrt.Assume(seg[i] != '/' && seg[i] < 0x80)
	}
	st := verifmodel.NewStore()
	ls := st.LinkSystem()
	unixfsnode.AddUnixFSReificationToLinkSystem(ls)
	lb, sb, err := builder.BuildUnixFSFile(bytes.NewReader([]byte{'B'}), "size-1", ls)
	verifrt.Assert(err == nil, "harness:build")
	lc, scz, err := builder.BuildUnixFSFile(bytes.NewReader([]byte{'C'}), "size-1", ls)
	verifrt.Assert(err == nil, "harness:build")
	eb, _ := builder.BuildUnixFSDirectoryEntry(name, int64(sb), lb)
	ec, _ := builder.BuildUnixFSDirectoryEntry("zz", int64(scz), lc)
	ld, sd, err := builder.BuildUnixFSDirectory([]dagpb.PBLink{eb, ec}, ls)
	verifrt.Assert(err == nil, "harness:build")
	ed, _ := builder.BuildUnixFSDirectoryEntry("d", int64(sd), ld)
	lr, _, err := builder.BuildUnixFSDirectory([]dagpb.PBLink{ed}, ls)
	verifrt.Assert(err == nil, "harness:build")

	var target selbuilder.SelectorSpec
	switch verifrt.Choose(2) {
	case 0:
		target = unixfsnode.MatchUnixFSSelector
	default:
		target = unixfsnode.MatchUnixFSPreloadSelector
	}
	path := "d/" + seg
	if verifrt.Choose(2) == 1 {
		path = "/d//" + seg + "/"
	}
	selNode := unixfsnode.UnixFSPathSelectorBuilder(path, target, false)
	sel, err := selector.CompileSelector(selNode)
	verifrt.Assert(err == nil, "selector:compiles")
	rootNode, err := ls.Load(ipld.LinkContext{}, lr, dagpb.Type.PBNode)
	verifrt.Assert(err == nil, "harness:root-loads")
	var matched []datamodel.Node
	prog := traversal.Progress{Cfg: &traversal.Config{
		LinkSystem:                     *ls,
		LinkTargetNodePrototypeChooser: func(l datamodel.Link, lc linking.LinkContext) (datamodel.NodePrototype, error) { return protoFor(l), nil },
	}}
	err = prog.WalkMatching(rootNode, sel, func(p traversal.Progress, n datamodel.Node) error {
		matched = append(matched, n)
		return nil
	})
	verifrt.Assert(err == nil, "walk:no-error")
	want := byte(0)
	switch {
	case verifrt.StrEq(seg, name):
		want = 'B'
		verifrt.Reach("names-the-entry")
	case verifrt.StrEq(seg, "zz"):
		want = 'C'
		verifrt.Reach("names-the-sibling")
	default:
		verifrt.Reach("names-nothing")
	}
	if want == 0 {
		verifrt.Assert(len(matched) == 0, "walk:absent-path-matches-nothing")
	} else {
		verifrt.Assert(len(matched) == 1, "walk:exactly-the-named-entity")
		if len(matched) == 1 {
			b, err := matched[0].AsBytes()
			verifrt.Assert(err == nil && len(b) == 1 && b[0] == want, "walk:file-match-carries-exact-bytes")
		}
	}
	verifrt.Reach("end")
}

// VerifPathShardedProbe (C03): root{ "h": sharded directory with two entries (any
// hashes: same or different buckets, one level of collision) } and the path
// "h/<seg>", where <seg> is an entry's name, or a non-member with an ARBITRARY hash
// (so it may be routed to an entry's bucket) that is unrelated to / a proper suffix
// of / a proper prefix of / an extension of an entry's name: the walk matches
// exactly the named file, or nothing.
func VerifPathShardedProbe() {
	lg := verifrt.Param("lg", 3)
	maxDepth := 2
	es, tab := makeEntries(2, lg, maxDepth, true)
	probe := &hEntry{hash: verifrt.Bytes(8)}
	variant := verifrt.Choose(5)
	if verifrt.Native() {
		switch variant {
		case 0:
			probe.name = verifmodel.FindName(99, probe.hash, maxDepth*lg)
		case 4:
			probe.name = es[0].name
		default:
			es[0].name, probe.name = verifmodel.FindRelatedNames(0, es[0].hash, probe.hash, maxDepth*lg, variant)
		}
	} else {
		switch variant {
		case 0:
			probe.name = "zz"
		case 1:
			probe.name = es[0].name[1:]
		case 2:
			probe.name = es[0].name[:len(es[0].name)-1]
		case 3:
			probe.name = es[0].name + "q"
		default:
			probe.name = es[0].name
		}
		if variant != 4 {
			tab.Set(probe.name, probe.hash)
		}
	}
	st := verifmodel.NewStore()
	ls := st.LinkSystem()
	unixfsnode.AddUnixFSReificationToLinkSystem(ls)
	contents := []byte{'B', 'C'}
	for i, e := range es {
		l, sz, err := builder.BuildUnixFSFile(bytes.NewReader(contents[i:i+1]), "size-1", ls)
		verifrt.Assert(err == nil, "harness:build")
		e.link, e.tsize = l, sz
	}
	lh, sh, err := builder.BuildUnixFSShardedDirectory(1<<uint(lg), hamt.HashMurmur3, entryLinks(es), ls)
	verifrt.Assert(err == nil, "harness:build")
	eh, _ := builder.BuildUnixFSDirectoryEntry("h", int64(sh), lh)
	lr, _, err := builder.BuildUnixFSDirectory([]dagpb.PBLink{eh}, ls)
	verifrt.Assert(err == nil, "harness:build")

	var target selbuilder.SelectorSpec
	switch verifrt.Choose(2) {
	case 0:
		target = unixfsnode.MatchUnixFSSelector
	default:
		target = unixfsnode.MatchUnixFSPreloadSelector
	}
	selNode := unixfsnode.UnixFSPathSelectorBuilder("h/"+probe.name, target, false)
	sel, err := selector.CompileSelector(selNode)
	verifrt.Assert(err == nil, "selector:compiles")
	rootNode, err := ls.Load(ipld.LinkContext{}, lr, dagpb.Type.PBNode)
	verifrt.Assert(err == nil, "harness:root-loads")
	var matched []datamodel.Node
	prog := traversal.Progress{Cfg: &traversal.Config{
		LinkSystem:                     *ls,
		LinkTargetNodePrototypeChooser: func(l datamodel.Link, lc linking.LinkContext) (datamodel.NodePrototype, error) { return protoFor(l), nil },
	}}
	err = prog.WalkMatching(rootNode, sel, func(p traversal.Progress, n datamodel.Node) error {
		matched = append(matched, n)
		return nil
	})
	verifrt.Assert(err == nil, "walk:no-error")
	if variant == 4 {
		verifrt.Assert(len(matched) == 1, "walk:exactly-the-named-entity")
		if len(matched) == 1 {
			b, err := matched[0].AsBytes()
			verifrt.Assert(err == nil && len(b) == 1 && b[0] == 'B', "walk:file-match-carries-exact-bytes")
		}
		verifrt.Reach("present")
	} else {
		verifrt.Assert(len(matched) == 0, "walk:absent-path-matches-nothing")
		verifrt.Reach("absent")
	}
	verifrt.Reach("end")
}
