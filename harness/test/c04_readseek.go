package test

import (
	"bytes"
	"io"
	"strconv"

	"github.com/ipfs/go-unixfsnode/data/builder"
	"github.com/ipfs/go-unixfsnode/file"
	"github.com/ipfs/go-unixfsnode/internal/verifmodel"
	"github.com/ipfs/go-unixfsnode/internal/verifrt"
	"github.com/ipld/go-ipld-prime"
)

// refReader is the io.ReadSeeker model of C04 (DESIGN Appendix B).
type refReader struct {
	content []byte
	pos     int64
}

// checkSeek performs one Seek on the real reader and the model.
func checkSeek(tag string, rs io.ReadSeeker, m *refReader, off int64, whence int) {
	var got int64
	var err error
	panicked, _ := verifrt.Catch(func() { got, err = rs.Seek(off, whence) })
	verifrt.Assert(!panicked, tag+":seek-no-panic")
	var base int64
	switch whence {
	case io.SeekStart:
		base = 0
	case io.SeekCurrent:
		base = m.pos
	case io.SeekEnd:
		base = int64(len(m.content))
	}
	target := base + off
	if target < 0 {
		verifrt.Reach("seek-negative")
		verifrt.Assert(err != nil, tag+":seek-negative-returns-error")
		// the reader stays usable: it reports a non-negative position and reads continue there
		var q int64
		var err2 error
		panicked, _ := verifrt.Catch(func() { q, err2 = rs.Seek(0, io.SeekCurrent) })
		verifrt.Assert(!panicked, tag+":seek-after-failed-seek-no-panic")
		verifrt.Assert(err2 == nil && q >= 0, tag+":position-after-failed-seek-valid")
		m.pos = q
		return
	}
	verifrt.Assert(err == nil, tag+":seek-ok")
	verifrt.Assert(got == target, tag+":seek-returns-absolute-offset")
	m.pos = target
}

// checkRead performs one Read of a sz-byte buffer on the real reader and the model.
func checkRead(tag string, rs io.ReadSeeker, m *refReader, sz int) {
	buf := make([]byte, sz)
	var n int
	var err error
	panicked, _ := verifrt.Catch(func() { n, err = rs.Read(buf) })
	verifrt.Assert(!panicked, tag+":read-no-panic")
	L := int64(len(m.content))
	if m.pos >= L {
		verifrt.Reach("read-at-or-past-end")
		verifrt.Assert(n == 0 && err == io.EOF, tag+":read-past-end-is-eof")
		return
	}
	p := int(m.pos) // concretised by the slice below (complete case split)
	verifrt.Assert(n >= 1 && n <= sz && int64(n) <= L-m.pos, tag+":read-count")
	verifrt.Assert(verifrt.BytesEq(buf[:n], m.content[p:p+n]), tag+":read-bytes=content-at-offset")
	verifrt.Assert(err == nil || (err == io.EOF && m.pos+int64(n) == L), tag+":read-error")
	m.pos += int64(n)
}

// VerifReadSeekHistory (C04): a history of `steps` Seek/Read operations with
// symbolic offsets (|off| <= 2^40), whence and buffer sizes over one reader (or two
// interleaved readers of the same node with readers=2) behaves like a reader over
// the exact content.
func VerifReadSeekHistory() {
	w := verifrt.Param("w", 2)
	K := verifrt.Param("k", 2)
	maxL := verifrt.Param("maxlen", 5)
	steps := verifrt.Param("steps", 2)
	nreaders := verifrt.Param("readers", 1)
	maxbuf := verifrt.Param("maxbuf", 3)
	old := builder.DefaultLinksPerBlock
	builder.DefaultLinksPerBlock = w
	defer func() { builder.DefaultLinksPerBlock = old }()

	L := verifrt.Choose(maxL + 1)
	content := verifrt.Bytes(L)
	assumeDistinctChunks(content, K)
	st := verifmodel.NewStore()
	ls := st.LinkSystem()
	lnk, _, err := builder.BuildUnixFSFile(bytes.NewReader(content), "size-"+strconv.Itoa(K), ls)
	verifrt.Assert(err == nil, "build-ok")
	root, err := ls.Load(ipld.LinkContext{}, lnk, protoFor(lnk))
	verifrt.Assert(err == nil, "root-loads")
	node, err := file.NewUnixFSFile(nil, root, ls)
	verifrt.Assert(err == nil, "open-ok")

	tag := "shard"
	if L <= K {
		tag = "single"
	}
	var rss []io.ReadSeeker
	var ms []*refReader
	for i := 0; i < nreaders; i++ {
		rs, err := node.AsLargeBytes()
		verifrt.Assert(err == nil, "aslargebytes-ok")
		rss = append(rss, rs)
		ms = append(ms, &refReader{content: content})
	}
	// pattern=<digits>: the kinds of the operations are fixed (1 = Read, 2 = Seek, first
	// operation = most significant digit), their arguments stay symbolic: longer histories
	// of one shape without the 2^steps factor
	var kinds []int
	for p := verifrt.Param("pattern", 0); p > 0; p /= 10 {
		kinds = append([]int{p % 10}, kinds...)
	}
	if len(kinds) > 0 {
		steps = len(kinds)
	}
	for s := 0; s < steps; s++ {
		r := 0
		if nreaders > 1 {
			r = verifrt.Choose(nreaders)
		}
		doSeek := false
		if len(kinds) > 0 {
			doSeek = kinds[s] == 2
		} else {
			doSeek = verifrt.Param("readonly", 0) == 0 && verifrt.Choose(2) == 0
		}
		if doSeek {
			whence := verifrt.Choose(3)
			rng := verifrt.Param("offrange", 1<<40)
			off := int64(verifrt.IntRange(-rng, rng))
			checkSeek(tag, rss[r], ms[r], off, whence)
		} else {
			sz := 1 + verifrt.Choose(maxbuf)
			checkRead(tag, rss[r], ms[r], sz)
		}
	}
	verifrt.Reach("end")
}
