package test

import (
	"io"
	"bytes"
	"io/fs"
	"os"
	"path/filepath"
	"strconv"

	"github.com/ipfs/go-unixfsnode/data/builder"
	"github.com/ipfs/go-unixfsnode/hamt"
	"github.com/ipfs/go-unixfsnode/internal/verifmodel"
	"github.com/ipfs/go-unixfsnode/internal/verifrt"
	dagpb "github.com/ipld/go-codec-dagpb"
	"github.com/ipld/go-ipld-prime"
	"github.com/ipld/go-ipld-prime/datamodel"
)

// watchOrder installs the children-before-parents observer: at every commit, each
// link inside the committed dag-pb block that this build has produced or will
// produce must already be in the store. "Produced by this build" is decided after
// the build: a dangling link is one whose target is committed later.
type orderWatch struct {
	st     *verifmodel.Store
	ls     *ipld.LinkSystem
	refs   [][]string // per commit: keys linked from the block
	keys   []string
	foreign map[string]bool
}

func watchOrder(st *verifmodel.Store, ls *ipld.LinkSystem) *orderWatch {
	ow := &orderWatch{st: st, ls: ls, foreign: map[string]bool{}}
	st.OnCommit = func(key string, data []byte) {
		ow.keys = append(ow.keys, key)
		var out []string
		if len(key) > 2 && key[1] == 0x70 { // CIDv1 dag-pb
			saved := st.Loads
			nd, err := ls.Load(ipld.LinkContext{}, keyLink(key), dagpb.Type.PBNode)
			st.Loads = saved
			verifrt.Assert(err == nil, "order:committed-block-decodes")
			links := nd.(dagpb.PBNode).FieldLinks()
			for i := int64(0); i < links.Length(); i++ {
				out = append(out, links.Lookup(i).FieldHash().Link().Binary())
			}
		}
		ow.refs = append(ow.refs, out)
	}
	return ow
}

// check asserts that no committed block linked to a block committed after it.
func (ow *orderWatch) check() {
	pos := map[string]int{}
	for i, k := range ow.keys {
		if _, ok := pos[k]; !ok {
			pos[k] = i
		}
	}
	for i, rs := range ow.refs {
		for _, r := range rs {
			if p, ok := pos[r]; ok {
				verifrt.Assert(p < i, "order:children-before-parents")
			} else {
				verifrt.Assert(ow.foreign[r], "order:link-to-block-never-stored")
			}
		}
	}
}

// reachable asserts that the whole DAG under key is in the store.
func (ow *orderWatch) complete(key string) {
	pos := -1
	for i, k := range ow.keys {
		if k == key {
			pos = i
		}
	}
	if ow.foreign[key] {
		return
	}
	verifrt.Assert(pos >= 0 && ow.st.Has(key), "clean:returned-dag-fully-committed")
	if pos >= 0 {
		for _, r := range ow.refs[pos] {
			ow.complete(r)
		}
	}
}

// faultPlan lets the explorer pick: no fault, the k-th write-open fails, or the
// k-th commit fails (k symbolic: the storage callbacks fork on it).
func faultPlan(st *verifmodel.Store, maxWrites int) int {
	// the failing write reports an arbitrary error, or one of the io sentinels that a
	// closed connection / truncated stream produces (and that builders reading their
	// input compare against)
	switch verifrt.Choose(3) {
	case 1:
		st.FaultErr = io.EOF
	case 2:
		st.FaultErr = io.ErrUnexpectedEOF
	}
	kind := verifrt.Choose(3)
	switch kind {
	case 1:
		st.FaultOpen = verifrt.IntRange(0, maxWrites-1)
	case 2:
		st.FaultCommit = verifrt.IntRange(0, maxWrites-1)
	}
	return kind
}

func checkBuildOutcome(ow *orderWatch, st *verifmodel.Store, lnk datamodel.Link, err error) {
	ow.check()
	if st.AfterFault {
		verifrt.Reach("fault-delivered")
		verifrt.Assert(err != nil, "clean:fault-returns-error")
		verifrt.Assert(lnk == nil, "clean:fault-returns-no-link")
		verifrt.Assert(st.CommitsAfterFault == 0, "clean:nothing-committed-after-fault")
		return
	}
	verifrt.Assert(err == nil && lnk != nil, "build-ok")
	ow.complete(lnk.Binary())
}

// VerifFileWriteFaults (C16): file builds under every fault position.
func VerifFileWriteFaults() {
	w := verifrt.Param("w", 2)
	K := verifrt.Param("k", 1)
	maxL := verifrt.Param("maxlen", 5)
	old := builder.DefaultLinksPerBlock
	builder.DefaultLinksPerBlock = w
	defer func() { builder.DefaultLinksPerBlock = old }()
	L := verifrt.Choose(maxL + 1)
	content := verifrt.Bytes(L)
	assumeDistinctChunks(content, K)
	st := verifmodel.NewStore()
	ls := st.LinkSystem()
	ow := watchOrder(st, ls)
	faultPlan(st, 2*maxL+2)
	lnk, _, err := builder.BuildUnixFSFile(bytes.NewReader(content), "size-"+strconv.Itoa(K), ls)
	checkBuildOutcome(ow, st, lnk, err)
	verifrt.Reach("end")
}

// VerifDirWriteFaults (C16): plain and sharded directory builds and symlinks.
func VerifDirWriteFaults() {
	lg := verifrt.Param("lg", 3)
	k := verifrt.Param("entries", 3)
	st := verifmodel.NewStore()
	ls := st.LinkSystem()
	ow := watchOrder(st, ls)
	var lnk datamodel.Link
	var err error
	switch verifrt.Choose(3) {
	case 0:
		es, _ := makeEntries(k, lg, verifrt.Param("maxdepth", 2), true)
		for _, e := range es {
			ow.foreign[e.link.Binary()] = true
		}
		links := entryLinks(es)
		faultPlan(st, 2*k)
		verifrt.MapOrderNondet(verifrt.Param("maporder", 0) == 1)
		lnk, _, err = builder.BuildUnixFSShardedDirectory(1<<uint(lg), hamt.HashMurmur3, links, ls)
		verifrt.MapOrderNondet(false)
		verifrt.Reach("sharded")
	case 1:
		var links []dagpb.PBLink
		for i := 0; i < k; i++ {
			l, _ := builder.BuildUnixFSDirectoryEntry(string(rune('a'+i)), int64(i+1), fakeLink(i))
			ow.foreign[fakeLink(i).Binary()] = true
			links = append(links, l)
		}
		faultPlan(st, 2)
		lnk, _, err = builder.BuildUnixFSDirectory(links, ls)
	case 2:
		faultPlan(st, 2)
		lnk, _, err = builder.BuildUnixFSSymlink(verifrt.String(2), ls)
	}
	checkBuildOutcome(ow, st, lnk, err)
	verifrt.Reach("end")
}

// VerifRecursiveWriteFaults (C16): one-level recursive import over the model
// filesystem under every write fault position.
func VerifRecursiveWriteFaults() {
	root := &fsNode{name: "r", mode: fs.ModeDir | 0o755, children: []*fsNode{
		{name: "a", mode: 0o644, content: verifrt.Bytes(1)},
		{name: "l", mode: fs.ModeSymlink | 0o777, target: "t"},
		{name: "s", mode: fs.ModeDir | 0o755, children: []*fsNode{{name: "b", mode: 0o644, content: verifrt.Bytes(2)}}},
	}}
	st := verifmodel.NewStore()
	ls := st.LinkSystem()
	ow := watchOrder(st, ls)
	faultPlan(st, 8)
	var lnk datamodel.Link
	var err error
	if verifrt.Native() {
		// the same tree on the real filesystem
		dir, _ := os.MkdirTemp("", "verifc16")
		defer os.RemoveAll(dir)
		p := filepath.Join(dir, "r")
		materialise(root, p)
		lnk, _, err = builder.BuildUnixFSRecursive(p, ls)
	} else {
		m := &modelFS{root: root, byPath: map[string]*fsNode{}, files: map[*os.File]*bytes.Reader{}, dirs: map[*os.File]*[]fs.DirEntry{}, opens: map[string]int{}, readdir: map[string]int{}}
		m.index(root, "/t/r")
		m.install()
		lnk, _, err = builder.BuildUnixFSRecursive("/t/r", ls)
	}
	checkBuildOutcome(ow, st, lnk, err)
	verifrt.Reach("end")
}
