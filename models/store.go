// Package verifmodel holds the harness-side models shared by the checks: a
// LinkSystem whose storage, fault points and hash function are under the
// harness's control while encoders, decoders, link construction and the real
// LinkSystem.Store/Load code stay the real ones. Plain Go: executed by the
// symbolic engine and, unchanged, by the native replay.
package verifmodel

import (
	"bytes"
	"errors"
	"hash"
	"io"

	"github.com/ipld/go-ipld-prime"
	"github.com/ipld/go-ipld-prime/datamodel"
	"github.com/ipld/go-ipld-prime/linking"
	cidlink "github.com/ipld/go-ipld-prime/linking/cid"
)

var ErrInjected = errors.New("verifmodel: injected storage fault")
var ErrNotFound = errors.New("verifmodel: block not found")

type Block struct {
	Key  string // link.Binary()
	Data []byte
}

type content struct {
	data   []byte
	digest []byte
}

// Store is an in-memory block store with an event log and fault injection.
type Store struct {
	Blocks []Block // in commit order
	index  map[string]int

	contents []content

	Opens   int      // write-opens so far
	Commits int      // commit attempts so far
	Loads   []string // keys requested from StorageReadOpener, in order

	FaultOpen   int // the FaultOpen-th write-open fails (-1: none)
	FaultCommit int // the FaultCommit-th commit fails (-1: none)
	FaultErr    error

	// FailLoad, when set, may veto a load (nth = 0-based index of the request).
	FailLoad func(key string, nth int) error
	// OnCommit, when set, observes every successful commit.
	OnCommit func(key string, data []byte)
	// AfterFault is set once an injected write fault has been delivered.
	AfterFault bool
	// CommitsAfterFault counts blocks committed after an injected fault.
	CommitsAfterFault int
}

func NewStore() *Store {
	return &Store{index: map[string]int{}, FaultOpen: -1, FaultCommit: -1, FaultErr: ErrInjected}
}

func (st *Store) Has(key string) bool {
	_, ok := st.index[key]
	return ok
}

func (st *Store) Get(key string) ([]byte, bool) {
	i, ok := st.index[key]
	if !ok {
		return nil, false
	}
	return st.Blocks[i].Data, true
}

func (st *Store) put(key string, data []byte) {
	if i, ok := st.index[key]; ok {
		st.Blocks[i].Data = data
		return
	}
	st.index[key] = len(st.Blocks)
	st.Blocks = append(st.Blocks, Block{Key: key, Data: data})
}

// Put stores a block directly (used by harnesses that hand-build DAGs).
func (st *Store) Put(key string, data []byte) { st.put(key, data) }

// digest is the model hash: a fresh 32-byte value per distinct content, the same
// value for equal contents (decided by byte equality, which forks symbolically).
func (st *Store) digest(data []byte) []byte {
	for _, c := range st.contents {
		if len(c.data) == len(data) && bytes.Equal(c.data, data) {
			return c.digest
		}
	}
	n := len(st.contents) + 1
	d := make([]byte, 32)
	d[0] = 0xD1
	d[1] = 0x6E
	d[29] = byte(n >> 16)
	d[30] = byte(n >> 8)
	d[31] = byte(n)
	cp := make([]byte, len(data))
	copy(cp, data)
	st.contents = append(st.contents, content{data: cp, digest: d})
	return d
}

type modelHasher struct {
	st  *Store
	buf []byte
}

func (h *modelHasher) Write(p []byte) (int, error) { h.buf = append(h.buf, p...); return len(p), nil }
func (h *modelHasher) Sum(b []byte) []byte         { return append(b, h.st.digest(h.buf)...) }
func (h *modelHasher) Reset()                      { h.buf = nil }
func (h *modelHasher) Size() int                   { return 32 }
func (h *modelHasher) BlockSize() int              { return 64 }

var _ hash.Hash = (*modelHasher)(nil)

// LinkSystem returns a real linking.LinkSystem (real codecs via the multicodec
// registry, real Store/Load code paths) over this store with the model hasher.
func (st *Store) LinkSystem() *ipld.LinkSystem {
	ls := cidlink.DefaultLinkSystem()
	ls.TrustedStorage = true
	ls.HasherChooser = func(lp datamodel.LinkPrototype) (hash.Hash, error) {
		return &modelHasher{st: st}, nil
	}
	ls.StorageWriteOpener = func(lc linking.LinkContext) (io.Writer, linking.BlockWriteCommitter, error) {
		k := st.Opens
		st.Opens++
		if k == st.FaultOpen {
			st.AfterFault = true
			return nil, nil, st.FaultErr
		}
		buf := &bytes.Buffer{}
		return buf, func(lnk datamodel.Link) error {
			c := st.Commits
			st.Commits++
			if c == st.FaultCommit {
				st.AfterFault = true
				return st.FaultErr
			}
			if st.AfterFault {
				st.CommitsAfterFault++
			}
			key := lnk.Binary()
			data := buf.Bytes()
			st.put(key, data)
			if st.OnCommit != nil {
				st.OnCommit(key, data)
			}
			return nil
		}, nil
	}
	ls.StorageReadOpener = func(lc linking.LinkContext, lnk datamodel.Link) (io.Reader, error) {
		key := lnk.Binary()
		nth := len(st.Loads)
		st.Loads = append(st.Loads, key)
		if st.FailLoad != nil {
			if err := st.FailLoad(key, nth); err != nil {
				return nil, err
			}
		}
		data, ok := st.Get(key)
		if !ok {
			return nil, ErrNotFound
		}
		return bytes.NewReader(data), nil
	}
	return &ls
}

// BlockIndex returns the commit index of a key, or -1.
func (st *Store) BlockIndex(key string) int {
	if i, ok := st.index[key]; ok {
		return i
	}
	return -1
}
