package verifmodel

import (
	"hash"
	"strconv"

	"github.com/spaolacci/murmur3"
)

// NameHashTable is the symbolic name-hash model: every distinct name is mapped to
// the 8 hash bytes registered for it (symbolic in the symbolic run). It stands in
// for murmur3.New64 on the builder and the reader side alike (verifrt.Replace),
// i.e. the claim holds for *any* function from names to 64 bits.
type NameHashTable struct {
	names  []string
	hashes [][]byte
	Lookups int
}

func (t *NameHashTable) Set(name string, h []byte) {
	t.names = append(t.names, name)
	t.hashes = append(t.hashes, h)
}

func (t *NameHashTable) get(name string) []byte {
	t.Lookups++
	for i, n := range t.names {
		if n == name {
			return t.hashes[i]
		}
	}
	panic("verifmodel: name without a registered hash: " + name)
}

type nameHash struct {
	t   *NameHashTable
	buf []byte
}

func (t *NameHashTable) New64() hash.Hash64 { return &nameHash{t: t} }

func (h *nameHash) Write(p []byte) (int, error) { h.buf = append(h.buf, p...); return len(p), nil }
func (h *nameHash) Sum(b []byte) []byte         { return append(b, h.t.get(string(h.buf))...) }
func (h *nameHash) Reset()                      { h.buf = nil }
func (h *nameHash) Size() int                   { return 8 }
func (h *nameHash) BlockSize() int              { return 1 }
func (h *nameHash) Sum64() uint64 {
	s := h.t.get(string(h.buf))
	var v uint64
	for _, b := range s {
		v = v<<8 | uint64(b)
	}
	return v
}

// FindName searches (natively) for a real name whose murmur3 hash agrees with
// want on its leading `bits` bits; names carry the index so that they are distinct.
func FindName(idx int, want []byte, bits int) string {
	var w uint64
	for _, b := range want {
		w = w<<8 | uint64(b)
	}
	for ctr := 0; ctr < 1<<26; ctr++ {
		name := "n" + strconv.Itoa(idx) + "_" + strconv.Itoa(ctr)
		h := murmur3.Sum64([]byte(name))
		if bits == 0 || h>>(64-uint(bits)) == w>>(64-uint(bits)) {
			return name
		}
	}
	panic("verifmodel: no name found for hash prefix")
}

// FindRelatedNames searches (natively) for a name whose murmur3 hash agrees with
// want on its leading bits AND whose derived probe (variant 1: proper suffix,
// 2: proper prefix, 3: extension) hashes to wantProbe's leading bits.
func FindRelatedNames(idx int, want, wantProbe []byte, bits int, variant int) (string, string) {
	pre := func(b []byte) uint64 {
		var w uint64
		for _, x := range b {
			w = w<<8 | uint64(x)
		}
		if bits == 0 {
			return 0
		}
		return w >> (64 - uint(bits))
	}
	hp := func(s string) uint64 {
		if bits == 0 {
			return 0
		}
		return murmur3.Sum64([]byte(s)) >> (64 - uint(bits))
	}
	w0, wp := pre(want), pre(wantProbe)
	for ctr := 0; ctr < 1<<28; ctr++ {
		name := "n" + strconv.Itoa(idx) + "_" + strconv.Itoa(ctr)
		if hp(name) != w0 {
			continue
		}
		var probe string
		switch variant {
		case 1:
			probe = name[1:]
		case 2:
			probe = name[:len(name)-1]
		default:
			probe = name + "q"
		}
		if hp(probe) == wp {
			return name, probe
		}
	}
	panic("verifmodel: no related names found")
}
