#!/bin/bash
# Runs every registered check at the given tier; prints one line per property.
tier=${1:-quick}
cd "$(dirname "$0")/.."
[ -n "$VP_RUN_REPO" ] && export REPO=$VP_RUN_REPO
./check --build
props=${2:-"C01 C02 C03 C04 C05 C06 C07 C08 C09 C10 C11 C12 C13 C14 C15 C16 C17 C18 C19 C20"}
for p in $props; do
  t0=$(date +%s)
  ./check $p $tier > /tmp/all_${tier}_$p.log 2>&1; code=$?
  t1=$(date +%s)
  echo "$p $tier exit=$code $((t1-t0))s $(tail -1 /tmp/all_${tier}_$p.log | cut -c1-160)"
  grep -a "INCONCLUSIVE\|ENGINE-MISMATCH\|^VIOLATION" /tmp/all_${tier}_$p.log | head -4 | cut -c1-300
done
