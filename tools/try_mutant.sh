#!/bin/bash
# usage: tools/try_mutant.sh <patch> <tier> <prop> [<prop>...]
# applies a patch to /repo, runs the given checks, and reverts the patch.
patch=$1; tier=$2; shift 2
cd /verif
git -C /repo apply "$patch" || { echo "patch does not apply"; exit 3; }
for p in "$@"; do
  ./check $p $tier > /tmp/mut_$p.log 2>&1; code=$?
  echo "== $p $tier exit=$code: $(grep -a -c '^VIOLATION' /tmp/mut_$p.log) violations; $(grep -a 'violation: harness' /tmp/mut_$p.log | sed 's/.*harness=\([^ ]*\) label=\([^ ]*\).*/\1:\2/' | sort -u | tr '\n' ' ' | cut -c1-400)"
  grep -a "ENGINE-MISMATCH\|INCONCLUSIVE" /tmp/mut_$p.log | head -3 | cut -c1-300
done
git -C /repo checkout -- .
git -C /repo status --short | head -3
# evidence files were rewritten by the mutant runs: restore the committed ones
git checkout -- evidence 2>/dev/null
