#!/bin/bash
# usage: tools/try_mutant.sh <patch> <tier> <prop> [<prop>...]
# applies a patch to a scratch worktree of /repo (never to /repo itself), runs the given
# checks against it (REPO=<worktree>), and removes the worktree afterwards.
patch=$1; tier=$2; shift 2
cd /verif
W=/var/tmp/verif-mutrepo-$$
git -C /repo worktree add -q --detach $W HEAD || exit 3
trap 'git -C /repo worktree remove --force $W; git -C /repo worktree prune' EXIT
git -C $W apply "$patch" || { echo "patch does not apply"; exit 3; }
mkdir -p /var/tmp/verif-mut-evidence
for p in "$@"; do
  cp evidence/$p.json /var/tmp/verif-mut-evidence/$p.json 2>/dev/null
  REPO=$W ./check $p $tier > /tmp/mut_$p.log 2>&1; code=$?
  echo "== $p $tier exit=$code: $(grep -a -c '^VIOLATION' /tmp/mut_$p.log) violations; $(grep -a 'violation: harness' /tmp/mut_$p.log | sed 's/.*harness=\([^ ]*\) label=\([^ ]*\).*/\1:\2/' | sort -u | tr '\n' ' ' | cut -c1-400)"
  grep -a "ENGINE-MISMATCH\|INCONCLUSIVE" /tmp/mut_$p.log | head -3 | cut -c1-300
  # the mutant run rewrote the evidence file: restore the one from the unchanged tree
  cp /var/tmp/verif-mut-evidence/$p.json evidence/$p.json 2>/dev/null
done
