#!/bin/bash
# usage: tools/adhoc_mutant.sh <patch> <pkgdir> <Harness> [k=v ...]
# runs one harness ad hoc against a scratch worktree of /repo with the patch applied
patch=$1; shift
W=/var/tmp/verif-adhoc-$$
git -C /repo worktree add -q --detach $W HEAD || exit 3
trap 'git -C /repo worktree remove --force $W; git -C /repo worktree prune' EXIT
git -C $W apply "$patch" || { echo "patch does not apply"; exit 3; }
cd /verif; REPO=$W ./check --run "$@" 2>&1 | grep -a "^\[gosym\] Verif\|^status\|^VIOL" | cut -c1-400 | head -12
