#!/bin/bash
# Applies every seeded change under seeded/ to a repository copy ($VP_RUN_REPO or $REPO; never
# /repo itself unless asked) and runs the owning property's check; prints one line per seed.
tier=${1:-quick}
R=${VP_RUN_REPO:-${REPO:-/repo}}
cd "$(dirname "$0")/.."
export REPO=$R
./check --build
for d in seeded/*/; do
  id=$(basename $d); prop=${id%%-*}
  git -C $R apply "$PWD/${d}patch.diff" || { echo "$id: patch does not apply"; continue; }
  t0=$(date +%s)
  ./check $prop $tier > /tmp/seeded_$id.log 2>&1; code=$?
  t1=$(date +%s)
  labels=$(grep -a 'violation: harness' /tmp/seeded_$id.log | sed 's/.*harness=\([^ ]*\) label=\([^ ]*\).*/\1:\2/' | sort -u | tr '\n' ' ' | cut -c1-300)
  echo "$id $prop $tier exit=$code violations=$(grep -a -c '^VIOLATION' /tmp/seeded_$id.log) $((t1-t0))s $labels"
  git -C $R checkout -- .
done
