#!/bin/bash
# usage: tools/confirm_seed.sh <worktree> <demo-pkg> <demo-regex>
# confirms in the scratch worktree: mutant compiles, existing suite passes (demo skipped),
# demo fails with the mutant, passes without it.
set -u
wt=$1; pkg=$2; rx=$3
export GOFLAGS=-mod=mod GOPROXY=off GOSUMDB=off GOTOOLCHAIN=local
cd $wt || exit 3
go build ./... || { echo "BUILD FAILS"; exit 1; }
go test -vet=off -count=1 -skip "$rx" ./... > /tmp/confirm_suite.log 2>&1; s=$?
echo "suite-with-mutant exit=$s ($(grep -c '^ok' /tmp/confirm_suite.log) ok, $(grep -c '^FAIL\|^---' /tmp/confirm_suite.log) fail lines)"
go test -vet=off -count=1 -run "$rx" $pkg > /tmp/confirm_demo1.log 2>&1; d1=$?
echo "demo-with-mutant exit=$d1 (expect non-zero)"
git checkout -q go.mod go.sum 2>/dev/null
git stash -q -- $(git diff --name-only) 
go test -vet=off -count=1 -run "$rx" $pkg > /tmp/confirm_demo2.log 2>&1; d2=$?
echo "demo-without-mutant exit=$d2 (expect 0)"
git checkout -q go.mod go.sum 2>/dev/null
git stash pop -q
[ $s -eq 0 ] && [ $d1 -ne 0 ] && [ $d2 -eq 0 ] && echo CONFIRMED || echo NOT-CONFIRMED
