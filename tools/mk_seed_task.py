#!/usr/bin/env python3
"""usage: mk_seed_task.py <worktree-prefix> <id>...
Writes <prefix><id>/TASK.md for a seeded-change sub-agent: the property's text, the files it is
anchored in, one line per earlier seeded change for it, and the deliverables. Nothing else
from /verif is given to the agent."""
import json, glob, sys
prefix, ids = sys.argv[1], sys.argv[2:]
props = {}
for l in open('/verif/properties.jsonl'):
    d = json.loads(l); props[d['id']] = d
prev = {}
for f in sorted(glob.glob('/verif/seeded/*/meta.json')):
    d = json.load(open(f)); prev.setdefault(d['property'], []).append(d['needs_to_manifest'])
for id in ids:
    p = props[id]; wt = prefix + id
    pv = '\n'.join('- ' + x for x in prev.get(id, []))
    race = "\nBecause this property is about concurrency, the demo is run under the race detector: `CGO_ENABLED=1 go test -race ...` (cgo and the race runtime are available).\n" if id == 'C17' else ''
    open(wt + '/TASK.md', 'w').write(f'''# Task: a realistic seeded bug for property {id}

You are helping test a verification framework by producing a realistic, subtle bug ("seeded change") in a Go library.
Work ONLY inside the git worktree {wt} (a checkout of github.com/ipfs/go-unixfsnode: Go IPLD ADL for UnixFS - protobuf codec for
UnixFS Data in data/, HAMT-sharded directory reader in hamt/, plain directory in directory/, builders in data/builder/, chunked file
reader in file/, path selectors in signaling.go, reification in reification.go, test fixtures in testutil/).
Do not read or write anything under /verif or /repo. Every shell command needs:
`export GOFLAGS=-mod=mod GOPROXY=off GOSUMDB=off GOTOOLCHAIN=local` (the sandbox has no network; all modules are in the module cache).

## The property to break

Property {id}: {p['title']}.
Statement: {p['statement']}
Quantified over: {p['quantifier']['text']}
Code it is anchored in: {', '.join(p['anchors']['files'])}

## Earlier seeded changes for this property (produce a DIFFERENT one: another function, another clause of the statement, or another triggering condition)

{pv}

## What to produce

Make a small change to the library's non-test source (in {wt}) that BREAKS this property while
(a) the code still compiles, and
(b) the existing test suite still passes: `cd {wt} && go test -vet=off -count=1 ./...` (about 1 minute).
The change should look like something a maintainer could plausibly write (a refactor, an optimisation, a "fix"), and it must need
something specific to manifest (a particular shape, size, name, order, fault or interleaving) - not something the existing tests expose.
{race}
Also write a demonstration: a Go test file in the worktree (e.g. {wt}/test/zz_demo_test.go or next to the changed package) that FAILS
with your change and PASSES on the unchanged code. Verify both: to check the unchanged behaviour save your change with `git diff > /tmp/<unique>.diff`, revert it with `git checkout -- <files>`, run the demo, then re-apply it with `git apply` (do NOT use `git stash`: the stash is shared by all worktrees of the repository and other agents are working in sibling worktrees).
Useful pieces: a memstore-backed `cidlink.DefaultLinkSystem()` (github.com/ipld/go-ipld-prime/storage/memstore), `unixfsnode.Reify`,
`unixfsnode.AddUnixFSReificationToLinkSystem`, the builders in data/builder, `builder.DefaultLinksPerBlock` (a package variable: small
values give deep file trees from small inputs), chunker strings like "size-4".

Deliverables, all inside {wt}:
1. `mutant.diff` - output of `git diff` of the library change only (not including the demo test).
2. the demo test file (leave it in place, untracked); state its path and the exact `go test -run ...` command.
3. `meta.txt` - 5-10 lines: what the change is, which clause of the property it breaks, and exactly what is needed for it to manifest.
Leave the worktree with the mutant applied. In your final answer give: the diff, the demo path + command, and confirmation that
(i) `go test ./...` passes with the mutant (excluding your demo), (ii) the demo fails with the mutant and passes without it.
''')
print("ok", ids)
