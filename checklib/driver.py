import json, os, re, subprocess, sys, time, hashlib, glob, shutil

VERIF = os.path.dirname(os.path.dirname(os.path.abspath(__file__)))
REPO = os.environ.get("REPO", "/repo")
MODULE = "github.com/ipfs/go-unixfsnode"
GOENV = dict(os.environ, GOFLAGS="-mod=mod", GOPROXY="off", GOSUMDB="off", GOTOOLCHAIN="local", CGO_ENABLED="0")
BIN = os.path.join(VERIF, "bin", "gosym")


def log(*a):
    print(*a, file=sys.stderr, flush=True)


def build_engine(force=False):
    srcs = glob.glob(os.path.join(VERIF, "engine", "*.go")) + [os.path.join(VERIF, "engine", "go.mod")]
    if not force and os.path.exists(BIN):
        bt = os.path.getmtime(BIN)
        if all(os.path.getmtime(s) <= bt for s in srcs):
            return
    os.makedirs(os.path.dirname(BIN), exist_ok=True)
    r = subprocess.run(["go", "build", "-o", BIN, "."], cwd=os.path.join(VERIF, "engine"), env=GOENV, capture_output=True, text=True)
    if r.returncode != 0:
        log(r.stdout, r.stderr)
        raise SystemExit(2)


def harness_files():
    """returns list of (pkgdir, filename, abs path)"""
    out = []
    base = os.path.join(VERIF, "harness")
    for root, dirs, files in os.walk(base):
        for f in sorted(files):
            if f.endswith(".go"):
                rel = os.path.relpath(root, base)
                if rel == "_root":
                    rel = "."
                out.append((rel, f, os.path.join(root, f)))
    return out


def model_files():
    out = []
    base = os.path.join(VERIF, "models")
    if os.path.isdir(base):
        for f in sorted(os.listdir(base)):
            if f.endswith(".go"):
                out.append(os.path.join(base, f))
    return out


def overlay(native):
    ov = {}
    rt = os.path.join(VERIF, "rt", "native" if native else "sym", "rt.go")
    ov[os.path.join(REPO, "internal/verifrt/rt.go")] = rt
    for m in model_files():
        ov[os.path.join(REPO, "internal/verifmodel", os.path.basename(m))] = m
    for pkgdir, f, path in harness_files():
        if f.endswith("_test.go") and not native:
            continue
        ov[os.path.normpath(os.path.join(REPO, pkgdir, "zz_verif_" + f))] = path
    return ov


def pkg_harnesses(pkgdir):
    names = []
    pkgname = None
    for d, f, path in harness_files():
        if d != pkgdir:
            continue
        src = open(path).read()
        m = re.search(r"^package (\w+)", src, re.M)
        if m:
            pkgname = m.group(1)
        names += re.findall(r"^func (Verif\w+)\(\)", src, re.M)
    return pkgname, names


def run_gosym(workdir, programs, workers=None, samples=3, solver="z3", tag="run", xcheck=None):
    os.makedirs(workdir, exist_ok=True)
    pats = sorted({"./" + p["pkg"] for p in programs})
    spec = {
        "repo": REPO,
        "overlay": overlay(False),
        "patterns": pats,
        "workers": workers or int(os.environ.get("VERIF_WORKERS", "0")) or (os.cpu_count() or 4),
        "solver": solver,
        "samples": samples,
        "programs": [dict(pkg=MODULE + ("" if p["pkg"] == "." else "/" + p["pkg"]), harness=p["harness"], params=p.get("params") or {},
                          max_steps=p.get("max_steps", 0), max_paths=p.get("max_paths", 0),
                          prefix=p.get("prefix"), single=p.get("single", False)) for p in programs],
    }
    sp = os.path.join(workdir, tag + ".spec.json")
    rp = os.path.join(workdir, tag + ".result.json")
    if os.path.exists(rp):
        os.remove(rp)
    json.dump(spec, open(sp, "w"), indent=1)
    t0 = time.time()
    env = dict(GOENV)
    if xcheck:
        # thorough tier: every 10th assertion query is re-decided from scratch by a second solver
        os.makedirs(os.path.join(VERIF, "work", "tmp"), exist_ok=True)
        env.update(GOSYM_XCHECK=xcheck, GOSYM_XCHECK_EVERY=os.environ.get("GOSYM_XCHECK_EVERY", "10"), GOSYM_TMP=os.path.join(VERIF, "work", "tmp"))
    r = subprocess.run([BIN, "run", "-spec", sp, "-out", rp], env=env, stdout=subprocess.PIPE, text=True)
    if not os.path.exists(rp):
        log("gosym failed:", r.stdout[-2000:])
        return None, r.returncode
    res = json.load(open(rp))
    for i, x in enumerate(res):
        x["_pkgdir"] = programs[i]["pkg"]
    return res, r.returncode


def native_replay(workdir, pkgdir, replay_paths, timeout=600, repeat=0):
    """Run the harnesses of pkgdir natively on the replay files. Returns {path: {result, events, reach}}"""
    pkgname, names = pkg_harnesses(pkgdir)
    testsrc = "package %s\n\nimport (\n\t\"testing\"\n\t\"%s/internal/verifrt\"\n)\n\nfunc TestVerifReplay(t *testing.T) {\n\tverifrt.RunNative(map[string]func(){\n" % (pkgname, MODULE)
    for n in names:
        testsrc += "\t\t\"%s\": %s,\n" % (n, n)
    testsrc += "\t})\n}\n"
    os.makedirs(workdir, exist_ok=True)
    tpath = os.path.join(workdir, "replay_%s_test.go" % pkgdir.replace("/", "_").replace(".", "root"))
    open(tpath, "w").write(testsrc)
    ov = overlay(True)
    ov[os.path.normpath(os.path.join(REPO, pkgdir, "zz_verif_replay_test.go"))] = tpath
    ovp = os.path.join(workdir, "native_overlay_%s.json" % pkgdir.replace("/", "_").replace(".", "root"))
    json.dump({"Replace": ov}, open(ovp, "w"), indent=1)
    env = dict(GOENV, VERIF_REPLAY=":".join(replay_paths))
    if repeat:
        env["VERIF_REPLAY_REPEAT"] = str(repeat)
    try:
        r = subprocess.run(["go", "test", "-v", "-vet=off", "-count=1", "-run", "^TestVerifReplay$", "-timeout", "%ds" % timeout, "-overlay", ovp, "./" + pkgdir],
                           cwd=REPO, env=env, capture_output=True, text=True, timeout=timeout + 60)
        out = r.stdout + "\n" + r.stderr
    except subprocess.TimeoutExpired as e:
        out = (e.stdout or b"").decode() if isinstance(e.stdout, bytes) else (e.stdout or "")
        out += "\nVERIF-TIMEOUT"
    res = {}
    curp = None
    for line in out.splitlines():
        if line.startswith("VERIF-BEGIN "):
            curp = line[len("VERIF-BEGIN "):].strip()
            res[curp] = {"result": "no-result", "events": [], "reach": []}
        elif curp and line.startswith("VERIF-EVENT "):
            res[curp]["events"].append(line[len("VERIF-EVENT "):])
        elif curp and line.startswith("VERIF-REACH "):
            res[curp]["reach"].append(line[len("VERIF-REACH "):])
        elif curp and line.startswith("VERIF-RESULT "):
            res[curp]["result"] = line[len("VERIF-RESULT "):].strip()
        elif curp and line.startswith("VERIF-END "):
            curp = None
    if curp:  # crashed inside a run (fatal error, e.g. concurrent map writes, or os.Exit)
        res[curp]["result"] = "crash " + " ".join(out.splitlines()[-15:])[:600]
    for p in replay_paths:
        if p not in res:
            res[p] = {"result": "not-run " + out[-800:].replace("\n", " "), "events": [], "reach": []}
    return res


def native_race_test(workdir, pkgdir, testname, rounds=3):
    """Runs a native concurrency test under the Go race detector. Returns (raced, excerpt)."""
    pkgname, names = pkg_harnesses(pkgdir)
    ov = overlay(True)
    ovp = os.path.join(workdir, "race_overlay.json")
    os.makedirs(workdir, exist_ok=True)
    json.dump({"Replace": ov}, open(ovp, "w"), indent=1)
    env = dict(GOENV, CGO_ENABLED="1")
    last = ""
    for _ in range(rounds):
        try:
            r = subprocess.run(["go", "test", "-race", "-vet=off", "-count=1", "-run", "^%s$" % testname, "-overlay", ovp, "./" + pkgdir],
                               cwd=REPO, env=env, capture_output=True, text=True, timeout=900)
        except subprocess.TimeoutExpired:
            return False, "timeout"
        out = r.stdout + r.stderr
        last = out[-1500:]
        if "DATA RACE" in out or "concurrent map" in out:
            i = out.find("DATA RACE")
            return True, out[max(0, i - 50):i + 600].replace("\n", " | ")
        if "-race requires" in out or "build constraints exclude" in out or "cannot find package" in out:
            return False, "race detector unavailable: " + out[-300:]
    return False, "no race reported natively: " + last.replace("\n", " | ")[-300:]


def write_replay(dirpath, prop, v_or_sample, harness, params, extra=None):
    os.makedirs(dirpath, exist_ok=True)
    body = {"property": prop, "harness": harness, "params": params or {}, "nondet": v_or_sample.get("nondet") or [], "trail": v_or_sample.get("trail") or []}
    if extra:
        body.update(extra)
    h = hashlib.sha1(json.dumps(body, sort_keys=True).encode()).hexdigest()[:12]
    p = os.path.join(dirpath, "%s-%s-%s.json" % (prop, harness, h))
    json.dump(body, open(p, "w"), indent=1)
    return p


def load_known():
    p = os.path.join(VERIF, "known_findings.json")
    if not os.path.exists(p):
        return []
    return json.load(open(p))


def native_reproduces(v, nat, any_label=False):
    """does the native result confirm the symbolic violation v?"""
    r = nat.get("result", "")
    if any_label and (r.startswith("assert-fail") or r.startswith("panic") or r.startswith("crash")):
        return True
    if v["kind"] == "assert":
        return r == "assert-fail label=" + v["label"] or r.startswith("panic") or r.startswith("crash")
    if v["kind"] == "panic":
        return r.startswith("panic") or r.startswith("crash") or r.startswith("assert-fail")
    return False


def main(argv):
    import registry
    if not argv:
        log(__doc__)
        return 2
    if argv[0] == "--build":
        build_engine(force=True)
        # the term simplifier's soundness self-test is part of setup
        r = subprocess.run(["go", "test", "-count=1", "-run", "TestSimplifierSound", "."], cwd=os.path.join(VERIF, "engine"), env=GOENV, capture_output=True, text=True)
        sys.stderr.write(r.stdout[-500:] + r.stderr[-500:])
        return 0 if r.returncode == 0 else 2
    if argv[0] == "--run":
        # ad-hoc: ./check --run <pkgdir> <Harness> k=v ...
        build_engine()
        params = {}
        extra = {}
        for kv in argv[3:]:
            k, v = kv.split("=")
            if k in ("max_steps", "max_paths"):
                extra[k] = int(v)
            else:
                params[k] = int(v)
        prog = dict(pkg=argv[1], harness=argv[2], params=params, **extra)
        res, code = run_gosym(os.path.join(VERIF, "work", "adhoc"), [prog])
        if res is None:
            return 2
        r = res[0]
        print("status", r["status"], "paths", r["paths"], "reach", r.get("reach"), "pruned", r.get("assume_pruned"), "error", r.get("error"), "inconclusive", r.get("inconclusive"))
        seen = set()
        for v in r.get("violations") or []:
            key = (v["kind"], v["label"])
            if key in seen:
                continue
            seen.add(key)
            print("VIOL", v["kind"], v["label"], "msg=", v.get("msg"), "site=", v.get("site"), "events=", v.get("events"), "nondet=", [n.get("c") for n in v["nondet"]][:40])
        return code
    prop = argv[0]
    if prop not in registry.PROPS:
        log("unknown property", prop)
        return 2
    P = registry.PROPS[prop]
    build_engine()
    if len(argv) >= 3 and argv[1] == "--replay":
        return do_replay(prop, P, argv[2])
    tier = argv[1] if len(argv) > 1 else os.environ.get("VERIF_TIER", "quick")
    seed = int(os.environ.get("VERIF_SEED", "0") or 0)
    return run_check(prop, P, tier, seed)


def do_replay(prop, P, path):
    body = json.load(open(path))
    pkgdir = None
    for tier in ("quick", "thorough"):
        for p in P["programs"].get(tier, []):
            if p["harness"] == body["harness"]:
                pkgdir = p["pkg"]
    if pkgdir is None:
        log("harness of replay file not registered for", prop)
        return 2
    work = os.path.join(VERIF, "work", prop + "-replay")
    nat = native_replay(work, pkgdir, [os.path.abspath(path)])
    r = nat[os.path.abspath(path)]
    print("native result:", r["result"])
    for e in r["events"]:
        print("  event:", e)
    if r["result"].startswith("assert-fail") or r["result"].startswith("panic") or r["result"].startswith("crash"):
        print("VIOLATION property=%s replay=%s" % (prop, path))
        return 1
    return 0


def run_check(prop, P, tier, seed):
    t0 = time.time()
    programs = P["programs"].get(tier) or P["programs"]["quick"]
    if tier == "thorough":
        # the thorough tier contains the quick tier: quick programs that are not literally
        # among the thorough ones (same harness, same parameters) run after them
        key = lambda x: (x.get("pkg"), x.get("harness"), json.dumps(x.get("params") or {}, sort_keys=True))
        have = {key(x) for x in programs}
        programs = list(programs) + [x for x in P["programs"]["quick"] if key(x) not in have]
    work = os.path.join(VERIF, "work", "%s-%s" % (prop, tier))
    shutil.rmtree(work, ignore_errors=True)
    os.makedirs(work, exist_ok=True)
    results, code = run_gosym(work, programs, samples=3, xcheck=("z3-new" if tier == "thorough" else os.environ.get("GOSYM_XCHECK")))
    evidence_path = os.path.join(VERIF, "evidence", prop + ".json")
    os.makedirs(os.path.dirname(evidence_path), exist_ok=True)
    if results is None:
        log("engine failure")
        return 2
    # a finding is keyed by harness + label: the same harness may serve several properties
    known = load_known()
    inconclusive = []
    viol_lines = []
    known_lines = []
    engine_mismatch = []
    n_viol_reported = 0
    # ---- counterexamples: native replay
    replays_dir = os.path.join(VERIF, "replays")
    by_pkg = {}
    for r in results:
        if r["status"] in ("inconclusive", "error"):
            inconclusive.append("%s %s: %s %s" % (r["harness"], r.get("params"), r.get("error", ""), r.get("inconclusive")))
        seen = {}
        for v in r.get("violations") or []:
            key = (v["harness"], v["kind"], v["label"])
            # one counterexample per label; for counterexamples that depend on the map iteration
            # order up to 6 alternatives are kept: the engine explores every permutation, the Go
            # runtime produces only some of them (small maps iterate in a rotation of slot order)
            if seen.get(key, 0) >= (6 if v.get("map_order_nondet") else 1):
                continue
            seen[key] = seen.get(key, 0) + 1
            v["_alt"] = seen[key] - 1
            rp = write_replay(replays_dir, prop, v, v["harness"], v.get("params"), {"label": v["label"], "kind": v["kind"], "site": v.get("site"), "msg": v.get("msg"), "map_order_nondet": v.get("map_order_nondet", False)})
            by_pkg.setdefault(r["_pkgdir"], []).append((rp, v))
    race_test = P.get("native_race_test")
    if race_test:
        # schedules cannot be imposed natively: race counterexamples are confirmed by running
        # the same operations concurrently under the race detector
        race_items = []
        for pkgdir in list(by_pkg):
            keep = []
            for rp, v in by_pkg[pkgdir]:
                (race_items if v["label"].startswith("race:") else keep).append((rp, v))
            by_pkg[pkgdir] = keep
        if race_items:
            raced, excerpt = native_race_test(work, race_test[0], race_test[1])
            for rp, v in race_items:
                if not raced:
                    engine_mismatch.append("race schedule for %s/%s not confirmed natively: %s" % (v["harness"], v["label"], excerpt))
                    continue
                k = match_known(known, v)
                if k is not None:
                    known_lines.append("KNOWN-FINDING: property=%s %s [%s/%s]" % (prop, k.get("text", ""), v["harness"], v["label"]))
                else:
                    n_viol_reported += 1
                    viol_lines.append("VIOLATION property=%s replay=%s" % (prop, rp))
                    log("  violation: harness=%s label=%s (race; native race detector: %s)" % (v["harness"], v["label"], excerpt[:300]))
    for pkgdir, items in by_pkg.items():
        if not items:
            continue
        no_native = P.get("no_native_replay", False)
        if no_native:
            nat = {rp: {"result": "skipped"} for rp, _ in items}
        else:
            nat = native_replay(work, pkgdir, [rp for rp, _ in items])
        confirmed = set()
        pending_mismatch = {}
        for rp, v in items:
            vkey = (v["harness"], v["kind"], v["label"])
            if vkey in confirmed:
                continue  # an alternative counterexample for this label already reproduced
            nr = nat.get(rp, {"result": "not-run"})
            ok = no_native or native_reproduces(v, nr, P.get("native_any_label", False))
            if not ok and v.get("map_order_nondet"):
                # map iteration order cannot be forced natively: re-run a bounded number of times
                # (each process repeats the replay up to 200 times until it fails: Go re-randomises
                # the iteration order on every range statement)
                for _ in range(int(os.environ.get("VERIF_MAPORDER_RETRIES", "5"))):
                    nr = native_replay(work, pkgdir, [rp], repeat=200).get(rp, {"result": "not-run"})
                    if native_reproduces(v, nr, P.get("native_any_label", False)):
                        ok = True
                        break
            if not ok:
                pending_mismatch.setdefault(vkey, "counterexample for %s/%s did not reproduce natively: %s (replay %s)" % (v["harness"], v["label"], nr.get("result"), rp))
                continue
            confirmed.add(vkey)
            k = match_known(known, v)
            if k is not None:
                known_lines.append("KNOWN-FINDING: property=%s %s [%s/%s]" % (prop, k.get("text", ""), v["harness"], v["label"]))
            else:
                n_viol_reported += 1
                viol_lines.append("VIOLATION property=%s replay=%s" % (prop, rp))
                log("  violation: harness=%s label=%s kind=%s site=%s msg=%s native=%s" % (v["harness"], v["label"], v["kind"], v.get("site"), v.get("msg"), nr.get("result")))
        for vkey, msg in pending_mismatch.items():
            if vkey not in confirmed:
                engine_mismatch.append(msg)
    # ---- witness validation of passing paths
    validated = 0
    wv_mismatch = []
    if not P.get("no_native_replay", False):
        by_pkg = {}
        for r in results:
            for i, s in enumerate((r.get("samples") or [])[:2]):
                rp = write_replay(os.path.join(work, "witness"), prop, s, r["harness"], r.get("params"))
                by_pkg.setdefault(r["_pkgdir"], []).append((rp, s, r))
        for pkgdir, items in by_pkg.items():
            nat = native_replay(work, pkgdir, [rp for rp, _, _ in items])
            for rp, s, r in items:
                nr = nat.get(rp, {"result": "not-run"})
                if nr["result"] == "ok" and nr.get("events", []) == (s.get("events") or []):
                    validated += 1
                elif nr["result"].startswith("mismatch replace-unsupported"):
                    pass
                else:
                    wv_mismatch.append("witness of %s diverged natively: %s events=%s vs %s" % (r["harness"], nr["result"], nr.get("events"), s.get("events")))
    # ---- vacuity: declared reach labels
    for pr, r in zip(programs, results):
        for lab in pr.get("must_reach", ["end"]):
            if (r.get("reach") or {}).get(lab, 0) == 0 and r["status"] == "ok":
                inconclusive.append("vacuity: label %r never reached in %s %s" % (lab, r["harness"], r.get("params")))
    # ---- native validation of the reference models against the real reference implementations
    validated_refs = None
    if P.get("validate_tests") and (tier == "thorough" or os.environ.get("VERIF_VALIDATE")):
        vdir = os.path.join(VERIF, "validate")
        try:
            shutil.copy(os.path.join(REPO, "go.sum"), os.path.join(vdir, "go.sum"))
            r = subprocess.run(["go", "test", "-count=1", "-run", P["validate_tests"], "./..."], cwd=vdir, env=GOENV, capture_output=True, text=True, timeout=1200)
            validated_refs = "ok" if r.returncode == 0 else "FAILED: " + (r.stdout + r.stderr)[-600:].replace("\n", " | ")
        except Exception as e:  # noqa
            validated_refs = "FAILED: %s" % e
        if validated_refs != "ok":
            inconclusive.append("reference-model validation against boxo failed: " + validated_refs)
    # ---- evidence
    tot = lambda k: sum((r.get(k) or 0) for r in results)
    funcs_repo = sorted({f for r in results for f in (r.get("functions_repo") or [])})
    funcs_intr = sorted({f for r in results for f in (r.get("functions_intrinsic") or [])})
    samples = []
    for r in results:
        for s in (r.get("samples") or [])[:1]:
            samples.append({"harness": r["harness"], "params": r.get("params"), "nondet_values": [n.get("c") for n in s.get("nondet", [])][:64],
                            "decisions": len(s.get("trail") or []), "events": (s.get("events") or [])[:20], "ssa_steps": s.get("steps")})
    if not samples:
        samples = [{"note": "no completed path produced a sample"}]
    ev = {
        "property_id": prop, "tier": tier, "seed": seed, "level": "model_checking",
        "coverage": {
            "states": max(1, tot("paths_completed")), "transitions": max(1, tot("decisions")),
            "traces_validated_against_impl": validated, "samples": samples[:12],
            "programs": len(results), "exhaustive": not inconclusive and not engine_mismatch,
            "explanation": "states = feasible execution paths of the real SSA code explored to completion (each stands for all inputs satisfying its path condition); transitions = symbolic branch / case-split decisions; every assertion on every path was discharged by z3 (unsat of pc ∧ ¬assert) unless listed as a violation",
            "paths_total": tot("paths"), "paths_pruned_by_assume": tot("paths_pruned_by_assume"), "paths_exhausted_case_splits": tot("paths_exhausted"),
            "solver_queries": tot("solver_queries"), "sat": tot("sat"), "unsat": tot("unsat"), "unknown": tot("unknown"),
            "assertion_queries": tot("assert_queries"), "assertions_concrete": tot("asserts_concrete"),
            "solver_s": round(sum(r.get("solver_s") or 0 for r in results), 2),
            "solvers": ["z3 4.8.12"] + (["z3 5.1.0 (cross-check of sampled assertion queries)"] if tot("cross_checked_queries") else []),
            "disagreements_checked": tot("cross_checked_queries"), "solver_disagreements": tot("cross_check_disagreements"),
            "ssa_steps": tot("ssa_steps"), "fmt_placeholders": tot("fmt_placeholders"),
            "functions_encoded": {"repo": funcs_repo, "intrinsic_or_stub": funcs_intr, "dependency_functions_interpreted": max([r.get("functions_dependency") or 0 for r in results] or [0])},
            "bounds": P.get("bounds", {}).get(tier, P.get("bounds", {}).get("quick", "")),
            "outside_claim": P.get("outside", ""),
            "per_program": [{"harness": r["harness"], "params": r.get("params"), "status": r["status"], "paths": r["paths"], "decisions": r["decisions"], "queries": r["solver_queries"],
                             "reach": r.get("reach"), "assume_pruned": r.get("assume_pruned"), "wall_s": round(r["wall_s"], 2)} for r in results],
            "inconclusive": inconclusive, "engine_mismatch": engine_mismatch + wv_mismatch,
            "known_findings_hit": known_lines,
            "reference_models_validated_natively": validated_refs,
        },
        "assumptions": P.get("assumptions", []),
        "wall_s": round(time.time() - t0, 2),
        "violations": n_viol_reported,
    }
    json.dump(ev, open(evidence_path, "w"), indent=1)
    for l in known_lines:
        print(l)
    for l in viol_lines:
        print(l)
    for l in engine_mismatch + wv_mismatch:
        print("ENGINE-MISMATCH:", l)
    for l in inconclusive:
        print("INCONCLUSIVE:", l)
    print("%s %s: programs=%d paths=%d decisions=%d queries=%d validated=%d wall=%.1fs" % (prop, tier, len(results), tot("paths"), tot("decisions"), tot("solver_queries"), validated, time.time() - t0))
    if viol_lines:
        return 1
    if engine_mismatch or wv_mismatch or inconclusive:
        return 2
    return 0


def match_known(known, v):
    for k in known:
        if k.get("status") != "known":
            continue
        if k.get("harness") and k["harness"] != v["harness"]:
            continue
        if k.get("label") and k["label"] != v["label"]:
            continue
        return k
    return None
