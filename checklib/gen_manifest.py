#!/usr/bin/env python3
"""Regenerates /verif/MANIFEST.json from checklib/registry.py (claimed checks) and
checklib/na.py-style entries inside the registry (NOT_APPLICABLE)."""
import json, os, sys
sys.path.insert(0, os.path.dirname(os.path.abspath(__file__)))
import registry

VERIF = os.path.dirname(os.path.dirname(os.path.abspath(__file__)))
ids = [json.loads(l)["id"] for l in open(os.path.join(VERIF, "properties.jsonl"))]
checks = []
na = []
for pid in ids:
    P = registry.PROPS.get(pid)
    if P and not P.get("disabled"):
        c = {
            "property_id": pid,
            "quick_cmd": "./check %s quick" % pid,
            "evidence_file": "/verif/evidence/%s.json" % pid,
            "replay_cmd_template": "./check %s --replay {path}" % pid,
            "engine": "gosym",
            "level_claimed": {"category": "model_checking", "text": P.get("level_text", ""), "design_ref": P.get("design_ref", "DESIGN.md §4 " + pid)},
            "level_note": P.get("level_note", ""),
            "technique": P.get("technique", "bounded symbolic execution of the real go/ssa code (own engine gosym), assertions and path feasibility decided by z3 over bit-vectors; counterexamples replayed natively"),
        }
        if "thorough" in P["programs"]:
            c["thorough_cmd"] = "./check %s thorough" % pid
        checks.append(c)
    else:
        na.append({"property_id": pid, "reason": registry.NOT_APPLICABLE.get(pid, "no check registered yet (machinery under construction)")})
m = {
    "version": 1,
    "setup_cmd": "cd /verif && ./check --build",
    "hooks": {
        "guard": "verif",
        "enable": "no source hooks: harnesses and the verifrt/verifmodel packages are injected as overlay files (go/packages Overlay for the symbolic run, go test -overlay for native replay); /repo is never modified by a check",
        "baseline_off_cmd": "cd /repo && GOFLAGS=-mod=mod go test -vet=off -count=1 -timeout 25m ./...",
        "source_commits": [],
        "add_only": True,
    },
    "engines": [{"name": "gosym", "path": "/verif/engine", "serves_properties": [c["property_id"] for c in checks],
                 "kind_free_text": "symbolic interpreter for go/ssa (x/tools v0.29.0) with decision-prefix path exploration, SMT-LIB2 bit-vector encoding, z3 4.8.12 back end, native replay of every counterexample"}],
    "checks": checks,
    "notes": registry.NOTES,
    "not_applicable": na,
}
json.dump(m, open(os.path.join(VERIF, "MANIFEST.json"), "w"), indent=1)
print("claimed:", [c["property_id"] for c in checks], "not claimed:", [n["property_id"] for n in na])
