# Registry: property id -> programs per tier, bounds, assumptions.
# A program = (repo-relative package dir, harness function, params).

def P(pkg, harness, must_reach=("end",), **params):
    d = {"pkg": pkg, "harness": harness, "params": params, "must_reach": list(must_reach)}
    return d

PROPS = {}

PROPS["C02"] = {
    "programs": {
        "quick": [P("hamt", "VerifHashBitsNext", must_reach=("end", "too-deep")),
                  P("hamt", "VerifHashBitsStep", must_reach=("end", "too-deep")),
                  P("data/builder", "VerifBuilderSlice", must_reach=("end", "too-deep")),
                  P("data/builder", "VerifLogTwo", must_reach=("end", "rejected")),
                  P("hamt", "VerifCheckLogTwo"), P("hamt", "VerifMkmask"),
                  P("hamt", "VerifBitfieldLaws", nb=1), P("hamt", "VerifBitfieldLaws", nb=2),
                  P("hamt", "VerifBitfieldSetBit", nb=2),
                  P("test", "VerifShardedDir", lg=3, entries=2, maxdepth=2),
                  ],
    },
    "bounds": {"quick": "K1: all 2^64 hashes x log2(fanout) 3..10 x depth 0..21"},
    "assumptions": [],
    "outside": "",
}

PROPS["C01"] = {
    "programs": {
        "quick": [P("test", "VerifFileRoundTrip", w=2, k=1, maxn=5)],
    },
    "bounds": {"quick": "w=2, size-1 chunker, 0..5 chunks"},
    "assumptions": [],
    "outside": "",
}

PROPS["C07"] = {
    "programs": {
        "quick": [P("test", "VerifFileStructure", w=2, k=1, maxn=9), P("test", "VerifFileStructure", w=3, k=1, maxn=13)],
    },
    "bounds": {"quick": "w=2 n<=9, w=3 n<=13, size-1 chunker"},
    "assumptions": [],
    "outside": "",
}

PROPS["C04"] = {
    "programs": {
        "quick": [P("test", "VerifReadSeekHistory", must_reach=("end", "seek-negative", "read-at-or-past-end"), w=2, k=2, maxlen=5, steps=2)],
    },
    "bounds": {"quick": "files of 0..5 bytes at w=2,size-2 (raw single block, root+2, root+3->2-level), histories of 2 ops, offsets |off|<=2^40, buffers 1..3"},
    "assumptions": [],
    "outside": "",
}

PROPS["C11"] = {
    "programs": {
        "quick": [P("test", "VerifFileStructure", w=2, k=2, maxn=5), P("test", "VerifFileStructure", w=3, k=1, maxn=10)],
    },
    "bounds": {"quick": "files: w=2 size-2 n<=5 (short last chunk), w=3 n<=10"},
    "assumptions": [],
    "outside": "",
}

PROPS["C05"] = {
    "programs": {"quick": [P("test", "VerifFileRangeLoads", must_reach=("end","single-block"), w=2, k=2, maxlen=6)]},
    "bounds": {"quick": "files 1..6 bytes, w=2 size-2, every range [a,b)"},
    "assumptions": [], "outside": "",
}
PROPS["C20"] = {
    "programs": {"quick": [P("test", "VerifFileFullReadOrder", must_reach=("end","preload"), w=2, k=1, maxlen=6)]},
    "bounds": {"quick": "files 0..6 chunks, w=2"},
    "assumptions": [], "outside": "",
}
PROPS["C12"] = {
    "programs": {"quick": [P("test", "VerifFileMissingBlock", w=2, k=1, maxlen=5)]},
    "bounds": {"quick": "files 2..5 chunks, w=2; every single block missing"},
    "assumptions": [], "outside": "",
}

PROPS["C16"] = {
    "programs": {"quick": [P("test", "VerifFileWriteFaults", must_reach=("end","fault-delivered"), w=2, k=1, maxlen=5),
                           P("test", "VerifDirWriteFaults", must_reach=("end","fault-delivered","sharded"), entries=2)]},
    "bounds": {"quick": "files 0..5 chunks w=2; dirs 2 entries fanout 8 depth<=2; symlink; every k-th open/commit failing"},
    "assumptions": [], "outside": "",
}

PROPS["C09"] = {
    "programs": {"quick": [P("data", "VerifDecodeFieldOrder", nopt=1, unk=0),
                           P("data", "VerifDecodeBlockSizes", must_reach=("end","packed","unpacked","interleaved"), maxbs=2, lens=2, unkkinds=0),
                           P("data", "VerifDecodeRequired"),
                           P("data", "VerifDecodeTime", lens=2), P("data", "VerifDecodeMetadata", lens=2),
                           P("data", "VerifEncodeReference", nopt=1, maxbs=1)]},
    "bounds": {"quick": "type + 1 optional field (each of the 6) in both orders, varint lengths {1,2,10}; blocksizes 0..2 unpacked/packed/interleaved; timestamp/metadata decoders with one unknown field; encode->reference decode with 1 optional field, 0..1 blocksizes, value magnitude classes {1,2,5,10} bytes"},
    "assumptions": [], "outside": "",
}

PROPS["C14"] = {
    "programs": {"quick": [P("test", "VerifReifyTotal", must_reach=("end","non-dagpb","link-map","file","directory","symlink-metadata","shard-valid","shard-invalid","unknown-type"))]},
    "bounds": {"quick": "node classes: 4 non-dag-pb kinds; dag-pb without Data / 3 undecodable payload shapes, 0..1 links; decodable Data with type = any int64, inline Data 0..2 bytes, hashType/fanout present or not with any uint64 value, 0..1 links; lazy and preload reifiers"},
    "assumptions": [], "outside": "",
}

PROPS["C10"] = {
    "programs": {"quick": [P("test", "VerifShardedDirDeterminism", lg=3, entries=2, maxdepth=2),
                           P("test", "VerifPlainDirDeterminism", entries=3),
                           P("test", "VerifFileFragmentation", w=2, k=2, maxlen=5)]},
    "bounds": {"quick": "sharded dir: 2 entries, fanout 8, depth<=2, all map-iteration orders x both entry orders; plain dir: 3 entries, all 6 orders; file: 0..5 bytes size-2, every fragmentation with fragments 1..3"},
    "assumptions": [], "outside": "",
}
PROPS["C06"] = {
    "programs": {"quick": [P("test", "VerifFileFullReadOrder", must_reach=("end","preload"), w=2, k=1, maxlen=6),
                           P("test", "VerifFileMissingBlock", w=2, k=1, maxlen=5)]},
    "bounds": {"quick": "files 0..6 chunks w=2: preload fetches all blocks once, in order, nothing else; every single missing block makes preload fail"},
    "assumptions": [], "outside": "",
}
PROPS["C08"] = {
    "programs": {"quick": [P("test", "VerifShardedDir", lg=3, entries=2, maxdepth=2),
                           P("data/builder", "VerifBuilderSlice", must_reach=("end", "too-deep")),
                           P("hamt", "VerifHashBitsNext", must_reach=("end", "too-deep"))]},
    "bounds": {"quick": "builder output == refHAMT (structure, names, bitfield, Tsizes, size) for 2 entries, fanout 8, depth<=2, buckets {0,1,7}; bit-slice agreement for all hashes/fanouts/depths"},
    "assumptions": [], "outside": "",
}

PROPS["C13"] = {
    "programs": {"quick": [P("data", "VerifDecodersArbitraryBytes", len=3),
                           P("hamt", "VerifHashBitsStep", must_reach=("end", "too-deep")),
                           P("test", "VerifHostileShard", must_reach=("end","rejected","iterated"), depth=1, links=1),
                           ]},
    "bounds": {"quick": "decoders: all byte strings of length 3; hashBits.Next from any state/width; hostile shard DAGs: root + 0..1 links, child shard with 0..1 links, fanouts {8,1024} chosen independently, bitfields 1..2 arbitrary bytes, names absent or 1..4 arbitrary bytes, children raw/shard/missing/non-UnixFS; lazy and preload; Length, 4 lookups, full iteration"},
    "assumptions": [], "outside": "",
}

PROPS["C18"] = {
    "programs": {"quick": [P("test", "VerifRecursiveImport", must_reach=("end","other-kind"), depth=1, entries=2)]},
    "bounds": {"quick": "trees of depth<=1 (root + up to 2 entries), each node's kind from an arbitrary 32-bit mode word, names 1 byte a..z, file contents / link targets 0..2 arbitrary bytes"},
    "assumptions": [], "outside": "",
}
PROPS["C15"] = {
    "programs": {"quick": [P("test", "VerifLinkMapContract", must_reach=("end","absent-key","present-key"), links=2),
                           P("test", "VerifHamtReaderWellFormed", must_reach=("end","member","non-member","iterate"))]},
    "bounds": {"quick": "link lists of 0..2 links (names absent or 0..2 arbitrary bytes, so empty/duplicate names arise), plain directory and generic link map; 4 hand-built well-formed HAMT shapes (3 levels, several sub-shards per shard)"},
    "assumptions": [], "outside": "",
}

PROPS["C19"] = {
    "programs": {"quick": [P("testutil", "VerifFixtureGenerators", must_reach=("end","unixfs-directory","custom-generator"), target=2048, freecoins=5, freenames=1),
                           P("testutil", "VerifFixtureFile")]},
    "bounds": {"quick": "UnixFSDirectory (default, sharded bit-width 3, custom child generator), GenerateDirectory (plain/sharded), UnixFSFile sizes 0..3, BuildDirectory; target size 2048; the first 5 dice and the first generated name are explorer-chosen (every value), later draws are scripted (file, largest size, fresh name)"},
    "native_any_label": True,
    "assumptions": ["crypto/rand.Int and namegen are replaced by a scripted source (their draws are the symbolic inputs); native replay runs the real generators with a math/rand stream seeded from the witness"],
    "outside": "",
}

PROPS["C03"] = {
    "programs": {"quick": [P(".", "VerifPathSelectorShape", must_reach=("end","empty-path"), len=3),
                           P("test", "VerifPathTraversal", must_reach=("end","present","absent"))]},
    "bounds": {"quick": "S1: every ASCII path string of 3 bytes x 4 target selectors x matchPath; S3: the real go-ipld-prime traversal over one tree (plain dirs, HAMT dir, 3-block file) x 8 paths (present, absent, redundant slashes, '..') x 3 target selectors x matchPath, symbolic file contents"},
    "assumptions": [], "outside": "",
}

PROPS["C17"] = {
    "programs": {"quick": [P("test", "VerifHamtConcurrentReaders", must_reach=("end","conflicting-accesses-checked")),
                           P("test", "VerifFileConcurrentReaders")]},
    "native_race_test": ("test", "TestVerifC17Race"),
    "no_witness_validation": True,
    "bounds": {"quick": "2 threads; every pair of {lookup first entry, lookup last entry, Length, full iteration} on 3 hand-built HAMT shapes, cold and pre-warmed cache; two readers of one multi-block file node (2..4 chunks); every interleaving of the recorded accesses (symbolic clocks)"},
    "assumptions": ["each thread's access trace is recorded from its solo execution on the shared node's initial state (cold or warmed); a race is reported when the solver finds a schedule with two conflicting accesses adjacent; below the granularity of recorded cell accesses the Go memory model is not modelled"],
    "outside": ">= 3 threads; dependency internals (ipld-prime nodes are immutable after decode)",
}

NOT_APPLICABLE = {}
NOTES = "All checks are bounded: every result reads 'holds for all values within the bounds recorded in the evidence file; nothing is claimed outside them'. exit 2 = inconclusive (never a pass)."
