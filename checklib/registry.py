# Registry: property id -> programs per tier, bounds, assumptions.
# A program = (repo-relative package dir, harness function, params).
# Every program is a gosym run: bounded symbolic execution of the real SSA code
# reachable from the harness, all paths, assertions decided by z3.


def P(pkg, harness, must_reach=("end",), **params):
    return {"pkg": pkg, "harness": harness, "params": params, "must_reach": list(must_reach)}


LEVEL_TEXT = ("bounded symbolic model checking of the real code: every feasible path of the harness through the current /repo SSA "
              "is explored (complete case split on every symbolic branch), every assertion on every path is discharged by z3 "
              "(unsat of path-condition AND NOT assertion) for all values of the symbolic inputs within the stated bounds; "
              "counterexamples are replayed against the natively compiled code before being reported")
LEVEL_NOTE = ("trusted: go/packages+go/ssa front end, gosym's SSA semantics (validated per run by native replay of sample witnesses and of every "
              "counterexample; term simplifier validated by a randomized soundness self-test at setup), z3 4.8.12, the harness-side models "
              "(model LinkSystem with collision-free model hash; symbolic name-hash standing in for murmur3 where stated; model filesystem; "
              "reference models refBalanced/refHAMT validated natively against boxo in /verif/validate). Nothing is claimed outside the bounds.")

PROPS = {}

# ---------------------------------------------------------------- C01
PROPS["C01"] = {
    "programs": {
        "quick": [
            P("test", "VerifFileRoundTrip", must_reach=("end", "largebytes", "pb-root", "plain-bytes-node"), w=2, k=1, maxn=6),
            P("test", "VerifFileRoundTrip", w=3, k=2, maxn=4, minlen=1),
            P("test", "VerifFileRoundTrip", w=2, k=1, maxn=3, distinct=0),
            P("test", "VerifFileRoundTrip", must_reach=("end", "other-chunkers"), w=2, k=1, maxn=3, chunker=1),
            P("test", "VerifFileRoundTrip", must_reach=("end", "variable-chunks"), w=2, k=1, maxn=3, varchunks=1),
            P("test", "VerifReaderMenu", must_reach=("end", "cidv0", "pb-leaf", "pb-leaf-typed-raw", "no-filesize", "no-blocksizes")),
        ],
        "thorough": [
            P("test", "VerifFileRoundTrip", must_reach=("end", "largebytes", "pb-root", "plain-bytes-node"), w=2, k=1, maxn=33, maxbuf=5),
            P("test", "VerifFileRoundTrip", w=3, k=1, maxn=40, minlen=9, maxbuf=3),
            P("test", "VerifFileRoundTrip", w=4, k=1, maxn=40, minlen=5, maxbuf=3),
            P("test", "VerifFileRoundTrip", w=5, k=1, maxn=27, minlen=24, maxbuf=2),
            P("test", "VerifFileRoundTrip", w=2, k=3, maxn=5, maxbuf=5),
            P("test", "VerifFileRoundTrip", w=2, k=1, maxn=5, distinct=0),
            P("test", "VerifFileRoundTrip", must_reach=("end", "variable-chunks"), w=2, k=1, maxn=4, varchunks=1),
            P("test", "VerifReaderMenu", must_reach=("end", "cidv0", "pb-leaf", "no-filesize", "no-blocksizes", "trickle"), deep=1),
        ],
    },
    "bounds": {
        "quick": "builder->reader: all contents of 0..6 size-1 chunks at width 2 (3 interior levels reached at 5), 1..8 bytes in size-2 chunks at width 3, buffers 1..3, direct/lazy/preload; free chunk aliasing for <=3 chunks; default / rabin / buzhash chunkers on inputs of 0..3 bytes (below their chunk sizes: one leaf); reader over hand-assembled DAG menu (raw/dag-pb leaves typed File or Raw, inline data, FileSize/BlockSizes present or absent, CIDv0/v1, trickle-like mixed depth) with <=2 children per node, depth <=2",
        "thorough": "width 2: 0..33 chunks (7 levels); width 3: 9..40; width 4: 5..40; width 5: 24..27 (around 5^2); size-3 chunks; buffers 1..5; free aliasing <=5 chunks; reader menu depth 3 (slimmed below the top node)",
    },
    "assumptions": ["multi-chunk files are produced with the size-K chunker (real boxo SizeSplitter executed) or by a model splitter cutting at explorer-chosen points (any chunker; 1..3 chunks of sizes 1..3 in quick; natively realised with the real rabin chunker); the default and content-defined chunkers (rabin, buzhash) are executed only on inputs below their minimum chunk size (chunk boundaries decided by a rolling hash of symbolic bytes did not finish: 15 min for 18 bytes)",
                    "model LinkSystem: real codecs and Store/Load paths, collision-free model hash instead of SHA-256"],
    "outside": "rabin/buzhash/default-chunker boundaries, width 174 itself (code is width-generic), files longer than the bound, reference-importer DAGs beyond the menu grammar",
}

# ---------------------------------------------------------------- C02
PROPS["C02"] = {
    "programs": {
        "quick": [
            P("hamt", "VerifHashBitsNext", must_reach=("end", "too-deep")),
            P("data/builder", "VerifBuilderSlice", must_reach=("end", "too-deep")),
            P("data/builder", "VerifLogTwo", must_reach=("end", "rejected")),
            P("hamt", "VerifCheckLogTwo"), P("hamt", "VerifMkmask"),
            P("hamt", "VerifBitfieldLaws", nb=1), P("hamt", "VerifBitfieldLaws", nb=2), P("hamt", "VerifBitfieldLaws", nb=8),
            P("hamt", "VerifBitfieldSetBit", nb=2),
            P("hamt", "VerifMatchKey"), P("hamt", "VerifIsValueLink"), P("hamt", "VerifTransformName"),
            P("data/builder", "VerifFormatLinkName"),
            P("data/builder", "VerifEstimateDirSize"),
            P("data/builder", "VerifAutoShardThreshold", must_reach=("end", "plain", "sharded")),
            P("test", "VerifShardedDir", lg=3, entries=2, maxdepth=2),
            P("test", "VerifShardedDir", must_reach=("end", "empty-directory"), lg=3, entries=0, maxdepth=2),
            P("test", "VerifShardedDir", lg=3, entries=3, maxdepth=3, shareprefix=2, sharetargets=0),
            P("test", "VerifPlainDirMap", entries=2),
            P("test", "VerifHamtReaderWellFormed", must_reach=("end", "member", "non-member", "iterate", "enumerate-then-lookup", "lookup-then-enumerate", "empty-key")),
            P("test", "VerifHamtReaderWellFormed", must_reach=("end", "member", "non-member", "iterate", "enumerate-then-lookup", "lookup-then-enumerate", "empty-key"), lg=9, hi=1),
            P("hamt", "VerifReaderDeepChain", must_reach=("end", "too-deep", "deep-ok")),
            P("data/builder", "VerifBuilderDeepChain", must_reach=("end", "too-deep", "deep-ok")),
        ],
        "thorough": [
            P("hamt", "VerifHashBitsNext", must_reach=("end", "too-deep")),
            P("hamt", "VerifHashBitsStep", must_reach=("end", "too-deep"), allwidths=1),
            P("data/builder", "VerifBuilderSlice", must_reach=("end", "too-deep")),
            P("hamt", "VerifBitfieldLaws", nb=2), P("hamt", "VerifBitfieldLaws", nb=8), P("hamt", "VerifBitfieldLaws", nb=32),
            P("hamt", "VerifBitfieldSetBit", nb=16),
            P("hamt", "VerifMatchKey"), P("hamt", "VerifIsValueLink"), P("hamt", "VerifTransformName"),
            P("data/builder", "VerifFormatLinkName"), P("data/builder", "VerifEstimateDirSize"),
            P("data/builder", "VerifAutoShardThreshold", must_reach=("end", "plain", "sharded")),
            P("test", "VerifShardedDir", lg=3, entries=3, maxdepth=2),
            P("test", "VerifShardedDir", lg=4, entries=2, maxdepth=2),
            P("test", "VerifShardedDir", lg=3, entries=2, maxdepth=3),
            P("test", "VerifShardedDir", lg=3, entries=2, maxdepth=2, small=0),
            P("data/builder", "VerifBuilderDeepChain", must_reach=("end", "too-deep", "deep-ok")),
                     P("hamt", "VerifReaderDeepChain", must_reach=("end", "too-deep", "deep-ok")),
            P("test", "VerifPlainDirMap", entries=3),
            P("test", "VerifHamtReaderWellFormed", must_reach=("end", "member", "non-member", "iterate", "enumerate-then-lookup", "lookup-then-enumerate", "empty-key")),
            P("hamt", "VerifEngineRunes", len=2),  # engine self-check: built-in rune conversions == interpreted unicode/utf8
        ],
    },
    "bounds": {
        "quick": "kernels over ALL values: 64-bit hashes x fanout 8..1024 x depth 0..21 (reader Next and builder Slice against one bit-slice spec), bitfields of 1-2 bytes x every index, link-name prefix laws for pad 1..3 and names/keys of 0..3 arbitrary bytes, estimateDirSize over link-kind mixes, auto-shard threshold at estimate threshold-1/0/+1; pipeline: 2 entries + 1 probe (unrelated / suffix / extension of an entry name), fanout 8, depth<=2, symbolic 64-bit name hashes with buckets {0,1,7}, symbolic sizes < 128; plain directory 0..3 entries; hand-built non-canonical HAMTs (4 shapes, 3 levels; also at fanout 512 in the highest buckets), the empty key as non-member; two names colliding for every number of levels up to the 64-bit limit (reader and builder), incl. the too-deep error",
        "thorough": "all widths 1..63 x all offsets in the inductive hashBits step; bitfields of 8 and 32 bytes (fanout 64, 256; per-byte popcount taken as a primitive on both sides, index arithmetic checked); pipeline with 3 entries, fanout 16, depth 3, unrestricted buckets; two names colliding for every number of levels up to the 64-bit limit incl. the too-deep error",
    },
    "assumptions": ["symbolic name hash: murmur3.New64 is replaced on builder and reader side by one table name->8 symbolic bytes (any function from names to 64 bits); native replays search real names whose murmur3 hash matches the witness prefix",
                    "the induction over shard depth joining the kernels and the bounded pipeline is stated, not mechanised"],
    "outside": "thousands of entries; fanouts > 16 in the end-to-end pipeline (covered through the all-value kernels only)",
}

# ---------------------------------------------------------------- C03
PROPS["C03"] = {
    "validate_tests": "TestKnownFindingMatchPath",
    "programs": {
        "quick": [P(".", "VerifPathSelectorShape", must_reach=("end", "empty-path"), len=3),
                  P("test", "VerifPathTraversal", must_reach=("end", "present", "absent")),
                  P("test", "VerifPathSymbolicSegment", must_reach=("end", "names-the-entry", "names-the-sibling", "names-nothing"), namelen=2, seglen=2),
                  P("test", "VerifPathSymbolicSegment", must_reach=("end", "names-nothing"), namelen=1, seglen=3),
                  P("test", "VerifPathSymbolicSegment", must_reach=("end", "names-the-entry", "names-nothing"), namelen=3, seglen=3),
                  P("test", "VerifPathShardedProbe", must_reach=("end", "present", "absent"), sharetargets=0),
                  P("test", "VerifPathTraversal", must_reach=("end", "present", "absent"), distinct=0),
                  P("hamt", "VerifMatchKey")],
        "thorough": [P(".", "VerifPathSelectorShape", must_reach=("end", "empty-path"), len=5),
                     P("test", "VerifPathTraversal", must_reach=("end", "present", "absent")),
                     P("test", "VerifPathSymbolicSegment", must_reach=("end", "names-the-entry", "names-the-sibling", "names-nothing"), namelen=2, seglen=2),
                     P("test", "VerifPathSymbolicSegment", must_reach=("end", "names-nothing"), namelen=2, seglen=5),
                     P("test", "VerifPathSymbolicSegment", must_reach=("end", "names-the-entry", "names-nothing"), namelen=5, seglen=5),
                     P("test", "VerifPathSymbolicSegment", must_reach=("end", "names-nothing"), namelen=4, seglen=6),
                     P("test", "VerifPathShardedProbe", must_reach=("end", "present", "absent"), sharetargets=0),
                     P("test", "VerifPathShardedProbe", must_reach=("end", "present", "absent"), sharetargets=0, lg=4),
                     P("hamt", "VerifMatchKey")],
    },
    "bounds": {"quick": "S1: every ASCII path string of 3 bytes x 4 target selectors x matchPath on/off: selector == reference tree, compiles; S3: the real go-ipld-prime traversal (interpreted) over one tree (plain dirs, HAMT dir, 3-block file) x 8 paths (present, absent, redundant slashes, '..') x 3 target selectors x matchPath, symbolic file contents: matches, order, bytes, blocks requested; S3-symbolic: plain directory with an arbitrary ASCII entry name (1..3 bytes) and path 'd/<seg>' with arbitrary ASCII segment bytes (2..3), two spellings of the path, match / preload targets: matched iff seg equals an entry name, with that entry's bytes; S3-sharded: 'h/<seg>' into a 2-entry sharded directory (any bucket pattern incl. a one-level collision) where seg is an entry or a non-member with an ARBITRARY hash that is unrelated to / a proper suffix / a proper prefix / an extension of an entry's name; the name-comparison kernel MatchKey for all names/keys of the bound",
               "thorough": "S1 with every ASCII path of 5 bytes; S3-symbolic with names to 5 and segments to 6 bytes"},
    "assumptions": ["non-ASCII path bytes are outside S1 (ParsePath splits on '/' only; segments are opaque)"],
    "outside": "trees other than the one in S3; explore-all target in S3",
}

# ---------------------------------------------------------------- C04
PROPS["C04"] = {
    "programs": {
        "quick": [P("test", "VerifReadSeekHistory", must_reach=("end", "seek-negative", "read-at-or-past-end"), w=2, k=2, maxlen=5, steps=2),
                  P("test", "VerifReadSeekHistory", must_reach=("end", "read-at-or-past-end"), w=2, k=2, maxlen=5, steps=3, readers=2, maxbuf=2, readonly=1),
                  P("test", "VerifReadSeekHistory", must_reach=("end", "seek-negative", "read-at-or-past-end"), w=2, k=2, maxlen=5, steps=3, offrange=7, maxbuf=2),
                  P("test", "VerifReadSeekHistory", must_reach=("end", "seek-negative", "read-at-or-past-end"), w=2, k=1, maxlen=3, steps=2, distinct=0),
                  P("test", "VerifReadSeekHistory", must_reach=("end", "seek-negative", "read-at-or-past-end"), w=2, k=1, maxlen=3, pattern=1221, offrange=4, maxbuf=2),
                  P("test", "VerifReadSeekHistory", must_reach=("end", "seek-negative", "read-at-or-past-end"), w=2, k=1, maxlen=3, pattern=2112, offrange=4, maxbuf=2)],
        "thorough": [P("test", "VerifReadSeekHistory", must_reach=("end", "seek-negative", "read-at-or-past-end"), w=2, k=2, maxlen=6, steps=3),
                     P("test", "VerifReadSeekHistory", must_reach=("end", "seek-negative", "read-at-or-past-end"), w=2, k=2, maxlen=5, steps=3, readers=2, maxbuf=2),
                     P("test", "VerifReadSeekHistory", must_reach=("end", "seek-negative", "read-at-or-past-end"), w=2, k=1, maxlen=5, steps=2, maxbuf=4),
                     P("test", "VerifReadSeekHistory", must_reach=("end", "seek-negative", "read-at-or-past-end"), w=2, k=1, maxlen=4, steps=3, offrange=7, maxbuf=2, distinct=0),
                     P("test", "VerifReadSeekHistory", must_reach=("end", "seek-negative", "read-at-or-past-end"), w=2, k=1, maxlen=4, pattern=12121, offrange=5, maxbuf=2),
                     P("test", "VerifReadSeekHistory", must_reach=("end", "seek-negative", "read-at-or-past-end"), w=2, k=1, maxlen=4, pattern=21221, offrange=5, maxbuf=2),
                     P("test", "VerifReadSeekHistory", must_reach=("end", "seek-negative", "read-at-or-past-end"), w=2, k=1, maxlen=4, pattern=12212, offrange=5, maxbuf=2)],
    },
    "bounds": {"quick": "files of 0..5 bytes at width 2 / size-2 (single raw block, root+2, root+3 -> 2 interior levels); histories of 2 operations with symbolic int64 offsets |off|<=2^40, all three whence values, buffers 1..3; histories of 3 operations with |off|<=7; plus two readers of one node interleaved in every order over 3 reads; contents with freely repeated chunks (one block linked at several positions) up to 3 chunks, 2 operations; histories of 4 operations of fixed kinds (Read Seek Seek Read, Seek Read Read Seek) with |off|<=4",
               "thorough": "histories of 3 operations; two readers with seeks; 3 interior levels; 5-operation histories of three fixed kind patterns"},
    "assumptions": ["offsets beyond +-2^40 (int64 wrap-around) are outside the claim"],
    "outside": "histories longer than the bound; more than two readers",
}

# ---------------------------------------------------------------- C05
PROPS["C05"] = {
    "programs": {
        "quick": [P("test", "VerifFileRangeLoads", must_reach=("end", "single-block"), w=2, k=2, maxlen=6),
                  P("test", "VerifFileRangeLoads", must_reach=("end", "second-range"), w=2, k=1, maxlen=4, ranges=2),
                  P("test", "VerifFileRangeLoads", must_reach=("end",), w=2, k=1, maxlen=4, distinct=0),
                  P("test", "VerifHamtReaderWellFormed", must_reach=("end", "member", "non-member", "iterate", "enumerate-then-lookup", "lookup-then-enumerate", "empty-key")), P("test", "VerifHamtReaderWellFormed", must_reach=("end", "member", "non-member", "iterate", "enumerate-then-lookup", "lookup-then-enumerate", "empty-key"), lg=9, hi=1),
                  P("test", "VerifPathTraversal", must_reach=("end", "present", "absent"))],
        "thorough": [P("test", "VerifFileRangeLoads", must_reach=("end", "single-block"), w=2, k=2, maxlen=10),
                     P("test", "VerifFileRangeLoads", must_reach=("end",), w=3, k=1, maxlen=10),
                     P("test", "VerifFileRangeLoads", must_reach=("end", "second-range"), w=2, k=1, maxlen=6, ranges=2),
                     P("test", "VerifFileRangeLoads", must_reach=("end", "second-range"), w=2, k=2, maxlen=5, ranges=3),
                     P("test", "VerifFileRangeLoads", must_reach=("end",), w=2, k=1, maxlen=5, distinct=0),
                     P("test", "VerifHamtReaderWellFormed", must_reach=("end", "member", "non-member", "iterate", "enumerate-then-lookup", "lookup-then-enumerate", "empty-key")),
                     P("test", "VerifPathTraversal", must_reach=("end", "present", "absent"))],
    },
    "bounds": {"quick": "files 1..6 bytes (width 2, size-2): every range [a,b), loaded set == blocks meeting the range + ancestors; two ranges read one after the other through ONE reader (absolute or relative Seek between them, forwards or backwards; files to 4 chunks): loaded set == what the two ranges need; contents with repeated chunks; HAMT lookups (member, and non-member with an arbitrary 64-bit hash) load exactly the shards on the hash path, in order; path traversal loads only path + entity blocks",
               "thorough": "files up to 10 bytes / 10 chunks at widths 2 and 3"},
    "assumptions": ["interior file nodes carry BlockSizes (true for every DAG this builder or the reference writes)"],
    "outside": "subset-matcher traversals (only Seek+ReadFull ranges are explored); how often a block is requested (the property speaks of which blocks)",
}

# ---------------------------------------------------------------- C06
PROPS["C06"] = {
    "programs": {
        "quick": [P("test", "VerifFileFullReadOrder", must_reach=("end", "preload"), w=2, k=1, maxlen=6),
                  P("test", "VerifFileMissingBlock", w=2, k=1, maxlen=5),
                  P("test", "VerifFileFullReadOrder", must_reach=("end", "preload", "repeated-block"), w=2, k=1, maxlen=4, distinct=0),
                  P("test", "VerifFileMissingBlock", w=2, k=1, maxlen=4, distinct=0),
                  P("test", "VerifHandBuiltReadOrder", must_reach=("end", "preload", "skewed-tsize", "two-levels", "identity-cid-leaf")),
                  P("test", "VerifHamtPreload", must_reach=("end", "missing")),
                  P("test", "VerifHamtPreload", must_reach=("end", "missing"), lg=9, hi=1), P("test", "VerifHamtPreload", must_reach=("end", "missing"), lg=10, hi=1),
                  P("test", "VerifPathTraversal", must_reach=("end", "present", "absent"))],
        "thorough": [P("test", "VerifFileFullReadOrder", must_reach=("end", "preload"), w=2, k=1, maxlen=12),
                     P("test", "VerifFileMissingBlock", w=2, k=1, maxlen=9),
                     P("test", "VerifFileMissingBlock", w=3, k=1, maxlen=10),
                     P("test", "VerifHandBuiltReadOrder", must_reach=("end", "preload", "skewed-tsize", "two-levels", "identity-cid-leaf")),
                     P("test", "VerifHamtPreload", must_reach=("end", "missing")),
                  P("test", "VerifHamtPreload", must_reach=("end", "missing"), lg=9, hi=1), P("test", "VerifHamtPreload", must_reach=("end", "missing"), lg=10, hi=1),
                     P("test", "VerifPathTraversal", must_reach=("end", "present", "absent"))],
    },
    "bounds": {"quick": "files 0..6 chunks (width 2): preload fetches every block once, in order, nothing else; every single missing block makes preload fail without a node; hand-built HAMTs: preload fetches every shard and no entry target, every single missing shard makes it fail; entity/preload selectors through the real traversal on one tree",
               "thorough": "files up to 12 chunks, widths 2 and 3"},
    "assumptions": [], "outside": "",
}

# ---------------------------------------------------------------- C07
PROPS["C07"] = {
    "validate_tests": "TestRefBalancedMatchesBoxo|TestBuilderMatchesBoxo",
    "programs": {
        "quick": [P("test", "VerifFileStructure", must_reach=("end", "empty"), w=2, k=1, maxn=9),
                  P("test", "VerifFileStructure", w=3, k=1, maxn=13, minn=1),
                  P("test", "VerifFileStructure", w=2, k=1, maxn=4, distinct=0),
                  P("test", "VerifFileStructure", w=3, k=1, maxn=4, distinct=0),
                  P("test", "VerifFileStructure", must_reach=("end", "variable-chunks"), w=2, k=1, maxn=5, minn=1, varchunks=1),
                  P("test", "VerifFileFragmentation", must_reach=("end", "eof-with-data", "empty-fragment"), w=2, k=2, maxlen=5),
                  P("test", "VerifFileFragmentation", must_reach=("end", "default-chunker"), w=2, k=2, maxlen=4, chunker=1)],
        "thorough": [P("test", "VerifFileStructure", must_reach=("end", "empty"), w=2, k=1, maxn=33),
                     P("test", "VerifFileStructure", w=3, k=1, maxn=40, minn=1),
                     P("test", "VerifFileStructure", w=4, k=1, maxn=40, minn=1),
                     P("test", "VerifFileStructure", w=2, k=3, maxn=6, minn=1),
                     P("test", "VerifFileStructure", w=2, k=1, maxn=5, distinct=0),
                     P("test", "VerifFileStructure", w=3, k=1, maxn=5, distinct=0),
                     P("test", "VerifFileStructure", must_reach=("end", "variable-chunks"), w=2, k=1, maxn=7, minn=1, varchunks=1),
                     P("test", "VerifFileStructure", must_reach=("end", "variable-chunks"), w=3, k=1, maxn=7, minn=1, varchunks=1)],
    },
    "bounds": {"quick": "every chunk count 0..9 at width 2 and 1..13 at width 3 (size-1 chunks, arbitrary distinct contents), and every content of 0..4 chunks with freely repeated chunks (identical siblings, identical subtrees) at widths 2 and 3, and ANY splitter (1..5 chunks of explorer-chosen sizes 1..3, equal or different contents; the chunker is replaced by a model that cuts there; native replays realise the same size/equality pattern with the real rabin-16-32-64 chunker): stored DAG == refBalanced (kinds, child lists, order, FileSize, BlockSizes, Tsize), returned size == cumulative",
               "thorough": "n <= 33 (width 2), <= 40 (widths 3, 4); short last chunk"},
    "assumptions": ["same structure and field values => same bytes => same CID rests on the determinism of the dag-pb codec and SHA-256 (dependencies); refBalanced is validated natively against boxo balanced.Layout for n<=40, w=2,3,4 (/verif/validate)"],
    "outside": "chunk counts above the bound; the cut points a particular content-defined chunker chooses (the builder is checked for ANY cut points)",
}

# ---------------------------------------------------------------- C08
PROPS["C08"] = {
    "validate_tests": "TestRefHAMTAndBuilderMatchBoxo|TestBoxoHistoriesLeaveWellFormedReadableShards",
    "programs": {
        "quick": [P("test", "VerifShardedDir", lg=3, entries=2, maxdepth=2),
                  P("test", "VerifShardedDir", lg=3, entries=3, maxdepth=3, shareprefix=2, sharetargets=0),
                  P("data/builder", "VerifBuilderSlice", must_reach=("end", "too-deep")),
                  P("hamt", "VerifHashBitsNext", must_reach=("end", "too-deep")),
                  P("data/builder", "VerifFormatLinkName"),
                  P("hamt", "VerifMatchKey"), P("hamt", "VerifIsValueLink"), P("hamt", "VerifTransformName"),
                  P("test", "VerifHamtReaderWellFormed", must_reach=("end", "member", "non-member", "iterate", "enumerate-then-lookup", "lookup-then-enumerate", "empty-key")),
                  P("test", "VerifHamtReaderWellFormed", must_reach=("end", "member", "non-member", "iterate", "enumerate-then-lookup", "lookup-then-enumerate", "empty-key"), lg=10, hi=1),
                  P("hamt", "VerifReaderDeepChain", must_reach=("end", "too-deep", "deep-ok")),
                  P("data/builder", "VerifBuilderDeepChain", must_reach=("end", "too-deep", "deep-ok"))],
        "thorough": [P("test", "VerifShardedDir", lg=3, entries=3, maxdepth=2),
                     P("hamt", "VerifMatchKey"), P("hamt", "VerifIsValueLink"), P("hamt", "VerifTransformName"),
                     P("test", "VerifShardedDir", lg=4, entries=2, maxdepth=2),
                     P("test", "VerifShardedDir", lg=3, entries=2, maxdepth=2, small=0),
                     P("test", "VerifShardedDir", lg=3, entries=2, maxdepth=2, sizebits=40, small=1, fixedbuckets=1),
                     P("data/builder", "VerifBuilderSlice", must_reach=("end", "too-deep")),
                     P("hamt", "VerifHashBitsNext", must_reach=("end", "too-deep")),
                     P("data/builder", "VerifFormatLinkName"),
                     P("data/builder", "VerifBuilderDeepChain", must_reach=("end", "too-deep", "deep-ok")),
                     P("hamt", "VerifReaderDeepChain", must_reach=("end", "too-deep", "deep-ok")),
                     P("test", "VerifHamtReaderWellFormed", must_reach=("end", "member", "non-member", "iterate", "enumerate-then-lookup", "lookup-then-enumerate", "empty-key"))],
    },
    "bounds": {"quick": "builder output == refHAMT (structure, link names, bitfield without leading zero bytes, Tsizes, returned size) for 2 entries, fanout 8, depth<=2; bit-slice and link-name kernels over all values; reader on hand-built locally well-formed, non-canonical shard trees (what insert/remove histories leave behind)",
               "thorough": "3 entries; fanout 16; unrestricted buckets; sizes up to 2^40; collision chains to the 64-bit limit"},
    "assumptions": ["refHAMT is validated natively against boxo unixfs/hamt at all 8 fanouts (/verif/validate); 'boxo leaves locally well-formed shards after any insert/remove history' is validated natively on seeded histories there, not explored symbolically (boxo's HAMT is not interpreted)"],
    "outside": "histories themselves; byte identity rests on dag-pb/SHA-256 determinism",
}

# ---------------------------------------------------------------- C09
PROPS["C09"] = {
    "programs": {
        "quick": [P("data", "VerifDecodeFieldOrder", nopt=1, unk=0),
                  P("data", "VerifDecodeBlockSizes", must_reach=("end", "packed", "unpacked", "interleaved"), maxbs=2, lens=2, unkkinds=0),
                  P("data", "VerifDecodeRequired"),
                  P("data", "VerifDecodeTime", lens=2), P("data", "VerifDecodeMetadata", lens=2),
                  P("data", "VerifEncodeReference", nopt=1, maxbs=1),
                  P("test", "VerifBuilderPermissions")],
        "thorough": [P("data", "VerifDecodeFieldOrder", nopt=2, unk=0, lens=2),
                     P("data", "VerifDecodeFieldOrder", nopt=1, unk=1),
                     P("data", "VerifDecodeBlockSizes", must_reach=("end", "packed", "unpacked", "interleaved"), maxbs=3, lens=2, unkkinds=0),
                     P("data", "VerifDecodeBlockSizes", must_reach=("end", "packed", "unpacked", "interleaved"), maxbs=1, lens=10, unkkinds=0),
                     P("data", "VerifDecodeBlockSizes", must_reach=("end", "packed", "unpacked", "interleaved"), maxbs=1, lens=2, unkkinds=1),
                     P("data", "VerifDecodeRequired"),
                     P("data", "VerifDecodeTime", lens=10), P("data", "VerifDecodeMetadata", lens=3),
                     P("data", "VerifEncodeReference", nopt=2, maxbs=1), P("data", "VerifEncodeReference", nopt=1, maxbs=2),
                     P("test", "VerifBuilderPermissions")],
    },
    "bounds": {"quick": "decode: type + 1 optional field (each of the 6) in both orders with varint lengths {1,2,10} (all values incl. 2^31, 2^32-1, 2^63, 2^64-1, negative seconds as members of the symbolic range); blocksizes 0..2 unpacked / one packed run / interleaved with other fields and an unknown field; missing required fields rejected; timestamp and metadata decoders with an unknown field of every wire type; encode -> independent reference decoder with 1 optional field and 0..1 blocksizes over value magnitude classes {1,2,5,10} varint bytes, default-mode elision, permissions, decode+re-encode reproduces bytes; builder masks permissions to 12 bits (all 2^32 modes)",
               "thorough": "2 optional fields in every order; unknown fields of every wire type interleaved; 3 blocksizes; all 10 varint lengths"},
    "assumptions": ["the reference decoder is a 100-line proto2 reader written for the check (gogo-protobuf's generated code is reflection/unsafe-based and not interpretable); every counterexample is replayed natively"],
    "outside": "duplicated singular fields, mixed packed+unpacked, mode >= 2^32, truncated input (not emitted by a conformant encoder; covered as 'no panic' under C13)",
}

# ---------------------------------------------------------------- C10
PROPS["C10"] = {
    "programs": {
        "quick": [P("test", "VerifShardedDirDeterminism", lg=3, entries=2, maxdepth=2),
                  P("test", "VerifPlainDirDeterminism", entries=3),
                  P("test", "VerifShardedDirDeterminism", lg=3, entries=3, maxdepth=3, shareprefix=2, sharetargets=0),
                  P("test", "VerifFileFragmentation", must_reach=("end", "eof-with-data", "empty-fragment"), w=2, k=2, maxlen=5),
                  P("test", "VerifFileFragmentation", must_reach=("end", "default-chunker"), w=2, k=2, maxlen=4, chunker=1),
                  P("test", "VerifFileFragmentation", w=2, k=1, maxlen=4, distinct=0),
                  P("data/builder", "VerifEstimateDirSize"),
                  P("data/builder", "VerifAutoShardThreshold", must_reach=("end", "plain", "sharded")),
                  P("test", "VerifQuickBuilder", must_reach=("end",))],
        "thorough": [P("test", "VerifShardedDirDeterminism", lg=3, entries=3, maxdepth=2),
                     P("test", "VerifPlainDirDeterminism", entries=4),
                     P("test", "VerifFileFragmentation", w=2, k=3, maxlen=7),
                     P("test", "VerifFileFragmentation", must_reach=("end", "default-chunker"), w=2, k=3, maxlen=6, chunker=1),
                     P("test", "VerifFileFragmentation", must_reach=("end", "content-defined-chunker"), w=2, k=2, maxlen=3, chunker=2),
                     P("test", "VerifFileFragmentation", w=2, k=1, maxlen=5, distinct=0),
                     P("data/builder", "VerifEstimateDirSize"),
                     P("data/builder", "VerifAutoShardThreshold", must_reach=("end", "plain", "sharded")),
                     P("test", "VerifQuickBuilder", must_reach=("end",))],
    },
    "bounds": {"quick": "sharded dir: 2 entries, fanout 8, depth<=2, built twice: every Go-map iteration order inside the shard builder x both entry orders (2-safety in one path); plain dir: 3 entries, all 6 orders; auto-shard decision at threshold-1/0/+1 with mixed link lengths in both orders; file: 0..5 bytes size-2, every fragmentation with fragments 1..3 (the last one with or without io.EOF, one empty (0, nil) read anywhere), also with repeated chunks, and with the default chunker (both spellings; thorough: rabin, buzhash) on 0..4 bytes; quick builder map directory under every map order",
               "thorough": "3 entries sharded (all 6 orders x map orders), 4 entries plain, files to 7 bytes size-3"},
    "assumptions": ["the Go runtime's randomised map order is over-approximated by 'any permutation' (explorer-chosen)"],
    "outside": "rabin/buzhash under fragmentation",
}

# ---------------------------------------------------------------- C11
PROPS["C11"] = {
    "programs": {
        "quick": [P("test", "VerifFileStructure", w=2, k=2, maxn=5), P("test", "VerifFileStructure", w=3, k=1, maxn=10),
                  P("test", "VerifFileStructure", w=2, k=1, maxn=4, distinct=0),
                  P("test", "VerifShardedDir", lg=3, entries=2, maxdepth=2),
                  P("test", "VerifPlainDirMap", entries=2),
                  P("test", "VerifDirSizes", must_reach=("end", "symlink", "plain")),
                  P("test", "VerifRecursiveImportSizes", must_reach=("end", "multi-chunk-file"), big=1)],
        "thorough": [P("test", "VerifRecursiveImportSizes", must_reach=("end", "multi-chunk-file"), big=1), P("test", "VerifPlainDirMap", entries=3), P("test", "VerifFileStructure", w=2, k=2, maxn=17), P("test", "VerifFileStructure", w=3, k=1, maxn=28),
                     P("test", "VerifFileStructure", w=2, k=1, maxn=5, distinct=0),
                     P("test", "VerifShardedDir", lg=3, entries=3, maxdepth=2),
                     P("test", "VerifShardedDir", lg=3, entries=2, maxdepth=2, sizebits=40, small=1, fixedbuckets=1),
                     P("test", "VerifDirSizes", must_reach=("end", "symlink", "plain"))],
    },
    "bounds": {"quick": "files: width 2 size-2 <=5 chunks (short last chunk), width 3 <=10 chunks, free chunk aliasing <=4 chunks (tree sum vs de-duplicated store): returned size, every Tsize, FileSize, BlockSizes recomputed from the stored blocks; sharded directories (2 entries, nested sub-shard) with symbolic entry sizes; plain directory and symlink sizes; recursive import of a tree with a small file, a symlink, a nested directory and a 256 KiB + 1 byte file (two default-sized chunks): returned size and every Tsize == tree sum",
               "thorough": "files to 17 / 28 chunks; sizes up to 2^40"},
    "assumptions": [], "outside": "recursive imports beyond one level (size composition is the per-builder law checked here)",
}

# ---------------------------------------------------------------- C12
PROPS["C12"] = {
    "programs": {
        "quick": [P("test", "VerifFileMissingBlock", w=2, k=1, maxlen=5),
                  P("test", "VerifFileKthLoadFails", w=2, k=1, maxlen=5),
                  P("test", "VerifFileMissingBlock", w=2, k=1, maxlen=4, distinct=0),
                  P("test", "VerifFileKthLoadFails", w=2, k=1, maxlen=4, distinct=0),
                  P("test", "VerifHamtMissingShards", must_reach=("end", "lookup-blocked", "iterate")),
                  P("test", "VerifHamtPreload", must_reach=("end", "missing"))],
        "thorough": [P("test", "VerifHamtPreload", must_reach=("end", "missing")), P("test", "VerifFileMissingBlock", w=2, k=1, maxlen=9), P("test", "VerifFileMissingBlock", w=3, k=2, maxlen=12),
                     P("test", "VerifFileKthLoadFails", w=2, k=1, maxlen=9),
                     P("test", "VerifHamtMissingShards", must_reach=("end", "lookup-blocked", "iterate"))],
    },
    "bounds": {"quick": "files 2..5 chunks (width 2): every single block missing (not-found, an arbitrary I/O error or io.ErrUnexpectedEOF) x buffers 1..2: exact prefix then non-EOF load error; the k-th load failing for symbolic k; both also over contents with repeated chunks (<= 4 chunks); hand-built HAMTs (4 shapes, up to 3 sub-shards over 3..4 levels): every subset of missing shards: preload reports it; lookups crossing one report the load error, iteration terminates, yields exactly the reachable entries once, one error per missing shard met",
               "thorough": "files to 9 / 12 chunks"},
    "assumptions": [], "outside": "",
}

# ---------------------------------------------------------------- C13
PROPS["C13"] = {
    "programs": {
        "quick": [P("data", "VerifDecodersArbitraryBytes", len=3),
                  P("hamt", "VerifHashBitsStep", must_reach=("end", "too-deep")),
                  P("hamt", "VerifIsValueLink"),
                  P("test", "VerifHostileShard", must_reach=("end", "rejected", "iterated"), depth=1, links=1),
                  P("test", "VerifHostileFile", must_reach=("end", "rejected", "sought"), depth=0, maxbs=2, offrange=3, vals=1, slim=1),
                  P("test", "VerifHostileDiamond"),
                  P("test", "VerifReadSeekHistory", must_reach=("end", "seek-negative"), w=2, k=2, maxlen=3, steps=2),
                  P("test", "VerifReifyTotal", must_reach=("end", "shard-invalid", "unknown-type"))],
        "thorough": [P("data", "VerifDecodersArbitraryBytes", len=4),
                     P("hamt", "VerifHashBitsStep", must_reach=("end", "too-deep"), allwidths=1),
                     P("hamt", "VerifIsValueLink"),
                     P("test", "VerifHostileShard", must_reach=("end", "rejected", "iterated"), depth=0, links=2),
                     P("test", "VerifHostileShard", must_reach=("end", "rejected", "iterated"), depth=1, links=1),
                     P("test", "VerifHostileShard", must_reach=("end", "rejected", "iterated"), depth=0, links=1, small=0),
                     P("test", "VerifHostileDiamond", depth=16),
                     P("test", "VerifHostileFile", must_reach=("end", "rejected", "sought"), depth=0, maxbs=3, vals=1, slim=0),
                     P("test", "VerifHostileFile", must_reach=("end", "rejected", "sought"), depth=0, maxbs=3, offrange=3, vals=0, slim=0),

                     P("test", "VerifReifyTotal", must_reach=("end", "shard-invalid", "unknown-type"))],
    },
    "bounds": {"quick": "decoders: ALL byte strings of length 3 (value xor error, no panic, step budget); hashBits.Next from any state with any width; hostile shard DAGs: root + 0..1 links, child shard with 0..1 links, fanouts {8,1024} chosen independently per shard, bitfields of 1..2 arbitrary bytes, names absent or 1..4 arbitrary bytes, children raw/shard/missing/non-UnixFS, lazy and preload, Length / 4 lookups / full iteration; hostile file DAGs: FileSize absent or ANY 64-bit value, 0..2 BlockSizes of ANY value (fewer or more than the links), two links with Tsize absent or ANY value of 3 magnitude classes, children raw / dag-pb leaf / missing, lazy and preload, AsBytes or Seek(|off|<=3, any whence)+2 reads; a chain of 12 shards each linking the next from two slots and ending empty (13 blocks, 2^12 paths through it): Length / preload / iteration within an instruction budget linear in the depth; negative and overflowing seeks; reification of arbitrary type / shard parameters",
               "thorough": "byte strings of length 4; 2 links per shard (one level) ; fanouts {8,16,256,1024}; hostile file DAGs with inline data, 1..2 links, 0..3 BlockSizes, |off|<=2^40; with plausible values and all count/kind combinations"},
    "assumptions": ["panics inside dependency decoders on bytes the harness never generates (dag-pb decode of arbitrary bytes) are not this library's code"],
    "outside": "blocks larger than the bound; hostile file nodes nested below hostile file nodes (2.7 million paths after an hour, not finished); two links per shard at two levels (3.2 million paths after 53 minutes, not finished); the wide value menu (4 fanouts, free Tsize, 0..2 bitfield bytes) at two levels (415 000 paths after 31 minutes, not finished)",
}

# ---------------------------------------------------------------- C14
PROPS["C14"] = {
    "programs": {"quick": [P("test", "VerifReifyTotal", must_reach=("end", "non-dagpb", "link-map", "file", "directory", "symlink-metadata", "shard-valid", "shard-invalid", "unknown-type", "type-not-first"))]},
    "bounds": {"quick": "node classes: 4 non-dag-pb kinds; dag-pb without Data / 3 undecodable payload shapes, 0..1 links; decodable Data with type = ANY int64 (DataType first, last, or behind an unknown field), inline Data 0..2 bytes, hashType / fanout present or not with ANY uint64 value, 0..1 links; lazy and preload reifiers; Substrate() identity"},
    "assumptions": ["Substrate identity (same node object) implies byte-identical re-encoding given a deterministic codec"], "outside": "",
}

# ---------------------------------------------------------------- C15
PROPS["C15"] = {
    "programs": {
        "quick": [P("test", "VerifLinkMapContract", must_reach=("end", "absent-key", "present-key", "dagpb-string-key"), links=2),
                  P("test", "VerifHamtReaderWellFormed", must_reach=("end", "member", "non-member", "iterate", "enumerate-then-lookup", "lookup-then-enumerate", "empty-key")), P("test", "VerifHamtReaderWellFormed", must_reach=("end", "member", "non-member", "iterate", "enumerate-then-lookup", "lookup-then-enumerate", "empty-key"), lg=9, hi=1),
                  P("hamt", "VerifMatchKey"), P("hamt", "VerifIsValueLink"), P("hamt", "VerifTransformName"),
                  P("hamt", "VerifReaderDeepChain", must_reach=("end", "too-deep", "deep-ok")),
                  P("test", "VerifShardedDir", lg=3, entries=2, maxdepth=2)],
        "thorough": [P("test", "VerifLinkMapContract", must_reach=("end", "absent-key", "present-key", "dagpb-string-key"), links=3),
                     P("test", "VerifHamtReaderWellFormed", must_reach=("end", "member", "non-member", "iterate", "enumerate-then-lookup", "lookup-then-enumerate", "empty-key")),
                     P("test", "VerifShardedDir", lg=3, entries=3, maxdepth=2)],
    },
    "bounds": {"quick": "link lists of 0..2 links (names absent or 0..2 arbitrary bytes, so empty and duplicate names arise as solver cases; sizes present or not), plain directory and generic link map, probe key of 0..2 arbitrary bytes; 4 hand-built well-formed HAMT shapes; the shard name kernels (key match, link classification, prefix stripping) over all names/keys of the bound; builder-written 2-entry HAMT with a non-member probe that is unrelated to / a suffix / a prefix / an extension of an entry name and has an arbitrary hash",
               "thorough": "3 links; builder-written HAMTs with 3 entries"},
    "assumptions": [], "outside": "",
}

# ---------------------------------------------------------------- C16
PROPS["C16"] = {
    "programs": {
        "quick": [P("test", "VerifFileWriteFaults", must_reach=("end", "fault-delivered"), w=2, k=1, maxlen=5),
                  P("test", "VerifDirWriteFaults", must_reach=("end", "fault-delivered", "sharded"), entries=2),
                  P("test", "VerifQuickBuilder", must_reach=("end",)),
                  P("test", "VerifRecursiveWriteFaults", must_reach=("end", "fault-delivered"))],
        "thorough": [P("test", "VerifFileWriteFaults", must_reach=("end", "fault-delivered"), w=2, k=1, maxlen=9),
                     P("test", "VerifFileWriteFaults", must_reach=("end", "fault-delivered"), w=3, k=1, maxlen=10),
                     P("test", "VerifDirWriteFaults", must_reach=("end", "fault-delivered", "sharded"), entries=3),
                     P("test", "VerifDirWriteFaults", must_reach=("end", "fault-delivered", "sharded"), entries=2, maporder=1),
                     P("test", "VerifQuickBuilder", must_reach=("end",)),
                     P("test", "VerifRecursiveWriteFaults", must_reach=("end", "fault-delivered"))],
    },
    "bounds": {"quick": "file builds 0..5 chunks (width 2), plain dir, sharded dir (2 entries, fanout 8, depth<=2), symlink, one-level recursive import over the model filesystem: no fault / the k-th write-open fails / the k-th commit fails for every k (symbolic), the failure being an arbitrary error, io.EOF or io.ErrUnexpectedEOF: children committed before parents, error and nil link on fault, nothing committed after the fault, returned DAG fully committed; quick builder: commit order",
               "thorough": "files to 10 chunks at widths 2, 3; 3-entry shards; every map iteration order"},
    "assumptions": [], "outside": "",
}

# ---------------------------------------------------------------- C17
PROPS["C17"] = {
    "programs": {"quick": [P("test", "VerifHamtConcurrentReaders", must_reach=("end", "conflicting-accesses-checked")),
                           P("test", "VerifFileConcurrentReaders"),
                           P("test", "VerifHamtConcurrentReadersJoint", must_reach=("end", "conflicting-accesses-checked")),
                           P("test", "VerifFileConcurrentReadersJoint", must_reach=("end", "conflicting-accesses-checked"))]},
    "native_race_test": ("test", "TestVerifC17Race"),
    "bounds": {"quick": "2 threads; every pair of {lookup first entry, lookup last entry, Length, full iteration} on 3 hand-built HAMT shapes, cold and pre-warmed cache; two readers of one multi-block file node (2..4 chunks); every interleaving of the recorded accesses to the node's internal cells (one symbolic 8-bit position per event of thread 1 = number of thread-2 events before it; mutex and sync.Once semantics as constraints); results equal to the solo results in both orders. Joint programs: the two operations recorded one after the other on ONE node with deep tracing (objects published into the node are traced under per-object names), every schedule that preserves each read's writer; HAMT shapes x 4x4 operation pairs, file with two interior levels (3..5 chunks, width 2) or hand-built over three dag-pb leaves with and without BlockSizes, each reader reading from its own start offset to the end, then seeking to the end"},
    "assumptions": ["joint programs: predicted schedules are restricted to those in which every read sees the same writer as in the recorded run (so the recorded traces remain the threads' real executions); recorded orders A;B only (B;A is the same pair of operations for the file program and is a separate path for the HAMT program, which explores every ordered pair)",
                    "each thread's access trace is recorded from its solo execution on the shared node's initial state (cold or warmed) by the engine's shared-cell tracer; a race is a schedule, found by z3, in which two conflicting accesses are adjacent; races are confirmed natively by running the same operations under the Go race detector (a schedule cannot be imposed natively)",
                    "below the granularity of recorded cell accesses the Go memory model is not modelled"],
    "outside": ">= 3 threads; interference-dependent control flow beyond the first conflicting access (argued from lock discipline in DESIGN.md, not explored)",
}

# ---------------------------------------------------------------- C18
PROPS["C18"] = {
    "native_any_label": True,  # replays share one process: a change that keeps state across imports fails natively under another label of the same harness
    "programs": {
        "quick": [P("test", "VerifRecursiveImport", must_reach=("end", "other-kind"), depth=1, entries=2)],
        "thorough": [P("test", "VerifRecursiveImport", must_reach=("end", "other-kind"), depth=2, entries=2),
                     P("test", "VerifRecursiveImport", must_reach=("end", "other-kind"), depth=1, entries=3)],
    },
    "bounds": {"quick": "every tree is imported twice, the second time into a fresh store (root links equal, second DAG complete in its own store); trees of depth<=1 (root + up to 2 entries), each node's kind given by an ARBITRARY 32-bit mode word (the importer's own IsDir/Type/IsRegular tests run symbolically), names 1 byte a..z, file contents 0..2 arbitrary bytes, link targets 1..2 non-NUL bytes; symlinks never opened / listed",
               "thorough": "depth 2; 3 entries"},
    "assumptions": ["os.Lstat/ReadDir/Readlink/Open/(*File).Read/Close are replaced by a model filesystem in the symbolic run; native replay materialises the witness tree in a real temp dir (mkfifo for 'other kinds')",
                    "directories crossing the auto-shard threshold are covered by C02's threshold program, not here"],
    "outside": "real kernel/filesystem behaviour, path lengths",
}

# ---------------------------------------------------------------- C19
PROPS["C19"] = {
    "programs": {"quick": [P("testutil", "VerifFixtureGenerators", must_reach=("end", "unixfs-directory", "custom-generator"), target=2048, freecoins=5, freenames=1),
                           P("testutil", "VerifFixtureGenerators", must_reach=("end", "unixfs-directory", "custom-generator"), target=2048, freecoins=0, freenames=3),
                           P("testutil", "VerifFixtureFile", must_reach=("end", "short-source", "eof-with-data")),
                           P("testutil", "VerifFixtureWrap", must_reach=("end", "with-siblings", "empty-path"))]},
    "native_any_label": True,
    "bounds": {"quick": "UnixFSDirectory (default, sharded bit-width 3, custom child generator), GenerateDirectory (plain/sharded), UnixFSFile sizes 0..3, BuildDirectory; target size 2048; the first 5 dice and the first generated name are explorer-chosen (every value) — and, in a second program, the first 3 generated names (so repeated draws of one name arise) —, later draws are scripted (file, largest size, fresh name); WrapContent under paths of 0..3 segments (incl. '', '/', 'a//b'), exclusive or with generated siblings before/after at every level: names, links, contents at every level and the wanted content at the path"},
    "assumptions": ["crypto/rand.Int and namegen are replaced by a scripted source (their draws are the symbolic inputs); native replay runs the real generators with a math/rand stream and accepts any failing assertion as confirmation"],
    "outside": "WrapContent with non-exclusive random siblings; larger target sizes",
}

# ---------------------------------------------------------------- C20
PROPS["C20"] = {
    "programs": {
        "quick": [P("test", "VerifFileFullReadOrder", must_reach=("end", "preload"), w=2, k=1, maxlen=6),
                  P("test", "VerifFileFullReadOrder", must_reach=("end", "preload", "repeated-block"), w=2, k=1, maxlen=4, distinct=0),
                  P("test", "VerifHandBuiltReadOrder", must_reach=("end", "preload", "skewed-tsize", "two-levels", "identity-cid-leaf")),
                  P("test", "VerifHamtReaderWellFormed", must_reach=("end", "member", "non-member", "iterate", "enumerate-then-lookup", "lookup-then-enumerate", "empty-key")),
                  P("test", "VerifHamtPreload", must_reach=("end", "missing")), P("test", "VerifHamtPreload", must_reach=("end", "missing"), lg=10, hi=1),
                  P("test", "VerifPathTraversal", must_reach=("end", "present", "absent"))],
        "thorough": [P("test", "VerifFileFullReadOrder", must_reach=("end", "preload"), w=2, k=1, maxlen=12),
                     P("test", "VerifFileFullReadOrder", must_reach=("end", "preload"), w=3, k=1, maxlen=13),
                     P("test", "VerifFileFullReadOrder", must_reach=("end", "preload", "repeated-block"), w=2, k=1, maxlen=5, distinct=0),
                     P("test", "VerifHandBuiltReadOrder", must_reach=("end", "preload", "skewed-tsize", "two-levels", "identity-cid-leaf")),
                     P("test", "VerifHamtReaderWellFormed", must_reach=("end", "member", "non-member", "iterate", "enumerate-then-lookup", "lookup-then-enumerate", "empty-key")),
                     P("test", "VerifHamtPreload", must_reach=("end", "missing")),
                     P("test", "VerifPathTraversal", must_reach=("end", "present", "absent"))],
    },
    "bounds": {"quick": "files 0..6 chunks (width 2): first-request order of a full sequential read and of preload == independent depth-first link-order walk of the DISTINCT blocks (first occurrences; contents with repeated chunks up to 4 chunks included); hand-built one- and two-level files with correct FileSize/BlockSizes whose raw-leaf links carry an exact or a skewed Tsize and whose leaves may sit under identity-multihash CIDs; HAMT iteration / Length / preload request shards in depth-first link order; lookups request path shards root-to-leaf; path traversal requests path blocks root-to-target",
               "thorough": "files to 12 / 13 chunks at widths 2, 3"},
    "assumptions": ["the shard cache is a Go map: any dependence of request order on its iteration order would show up under the engine's insertion-order maps only if the code iterated it; the code is also checked with explorer-chosen map orders in C10/C16"],
    "outside": "",
}

NOT_APPLICABLE = {}
NOTES = ("All checks are bounded: every result reads 'holds for all values within the bounds recorded in the evidence file; nothing is claimed outside them'. "
         "exit 0 = held on everything explored (KNOWN-FINDING lines for listed findings); exit 1 = natively reproduced violation; exit 2 = inconclusive / engine mismatch (never a pass).")

for _p in PROPS.values():
    _p.setdefault("level_text", LEVEL_TEXT)
    _p.setdefault("level_note", LEVEL_NOTE)
