package main

import (
	"fmt"
	"go/types"
	"math"
	"strings"

	"golang.org/x/tools/go/ssa"
)

type Kind uint8

const (
	KInvalid Kind = iota
	KBool
	KInt
	KFloat
	KString
	KPtr
	KSlice
	KArray
	KStruct
	KIface
	KMap
	KFunc
	KTuple
	KIter
	KChan
	KComplex
	KUnsafePtr
)

var kindNames = [...]string{"invalid", "bool", "int", "float", "string", "ptr", "slice", "array", "struct", "iface", "map", "func", "tuple", "iter", "chan", "complex", "unsafeptr"}

// Value is a tagged union. Scalars are unboxed; symbolic scalars carry a *Term in p.
type Value struct {
	k Kind
	w uint8  // int width
	c uint64 // concrete bool/int/float bits
	p any
}

// SymStr is a string with at least one symbolic byte (length is concrete).
type SymStr struct{ b []Value }

// SymPtr is a pointer to an element of a slice/array at a symbolic index
// (already proven in range on this path).
type SymPtr struct {
	base []Value
	idx  *Term // width 64
}

type Iface struct {
	t types.Type
	v Value
}

type Closure struct {
	fn    *ssa.Function
	env   []Value
	bi    *ssa.Builtin
	bound *Value // bound receiver for method values via intrinsic (unused normally)
}

type Complex struct{ re, im float64 }

func (v Value) isSym() bool {
	switch v.k {
	case KBool, KInt:
		return v.p != nil
	case KString:
		_, ok := v.p.(*SymStr)
		return ok
	}
	return false
}

func mkInt(w uint8, c uint64) Value { return Value{k: KInt, w: w, c: c & mask(w)} }
func mkBool(b bool) Value {
	if b {
		return Value{k: KBool, c: 1}
	}
	return Value{k: KBool}
}
func mkStr(s string) Value     { return Value{k: KString, p: s} }
func mkFloat(f float64, w uint8) Value { return Value{k: KFloat, w: w, c: math.Float64bits(f)} }
func (v Value) float() float64 { return math.Float64frombits(v.c) }

func (v Value) term() *Term {
	if v.p == nil {
		return nil
	}
	return v.p.(*Term)
}

func mkSymInt(t *Term) Value {
	if t.isConst() {
		return mkInt(t.w, t.c)
	}
	return Value{k: KInt, w: t.w, p: t}
}
func mkSymBool(t *Term) Value {
	if t.isConst() {
		return mkBool(t.c != 0)
	}
	return Value{k: KBool, p: t}
}

// str returns the concrete string; panics (unsupported) if symbolic.
func (v Value) str() string {
	if v.p == nil {
		return ""
	}
	if s, ok := v.p.(string); ok {
		return s
	}
	panic(pathAbort{kind: "unsupported", msg: "concrete string required but value has symbolic bytes"})
}

func strLen(v Value) int {
	switch s := v.p.(type) {
	case nil:
		return 0
	case string:
		return len(s)
	case *SymStr:
		return len(s.b)
	}
	panic("strLen")
}

// strBytes returns the bytes of a string value as []Value (fresh slice).
func strBytes(v Value) []Value {
	switch s := v.p.(type) {
	case nil:
		return nil
	case string:
		out := make([]Value, len(s))
		for i := 0; i < len(s); i++ {
			out[i] = Value{k: KInt, w: 8, c: uint64(s[i])}
		}
		return out
	case *SymStr:
		out := make([]Value, len(s.b))
		copy(out, s.b)
		return out
	}
	panic("strBytes")
}

func strAt(v Value, i int) Value {
	switch s := v.p.(type) {
	case string:
		return Value{k: KInt, w: 8, c: uint64(s[i])}
	case *SymStr:
		return s.b[i]
	}
	panic("strAt")
}

// mkStrFromBytes builds a string value from byte values (collapsing to a
// concrete string when possible). The slice is copied.
func mkStrFromBytes(b []Value) Value {
	allc := true
	for i := range b {
		if b[i].p != nil {
			allc = false
			break
		}
	}
	if allc {
		bs := make([]byte, len(b))
		for i := range b {
			bs[i] = byte(b[i].c)
		}
		return mkStr(string(bs))
	}
	nb := make([]Value, len(b))
	copy(nb, b)
	return Value{k: KString, p: &SymStr{b: nb}}
}

func strSlice(v Value, lo, hi int) Value {
	switch s := v.p.(type) {
	case nil:
		return mkStr("")
	case string:
		return mkStr(s[lo:hi])
	case *SymStr:
		return mkStrFromBytes(s.b[lo:hi])
	}
	panic("strSlice")
}

func strConcat(a, b Value) Value {
	as, aok := a.p.(string)
	bs, bok := b.p.(string)
	if a.p == nil {
		aok = true
	}
	if b.p == nil {
		bok = true
	}
	if aok && bok {
		return mkStr(as + bs)
	}
	return mkStrFromBytes(append(strBytes(a), strBytes(b)...))
}

func (v Value) slice() []Value {
	if v.p == nil {
		return nil
	}
	return v.p.([]Value)
}
func mkSlice(s []Value) Value {
	if s == nil {
		return Value{k: KSlice}
	}
	return Value{k: KSlice, p: s}
}
func (v Value) fields() []Value { return v.p.([]Value) }
func (v Value) ptr() *Value {
	if v.p == nil {
		return nil
	}
	if p, ok := v.p.(*Value); ok {
		return p
	}
	return nil
}
func mkPtr(p *Value) Value { return Value{k: KPtr, p: p} }
func (v Value) iface() *Iface {
	if v.p == nil {
		return nil
	}
	return v.p.(*Iface)
}
func mkIface(t types.Type, x Value) Value { return Value{k: KIface, p: &Iface{t: t, v: x}} }
func (v Value) closure() *Closure {
	if v.p == nil {
		return nil
	}
	return v.p.(*Closure)
}

func (v Value) isNil() bool {
	switch v.k {
	case KPtr, KSlice, KIface, KMap, KFunc, KChan, KUnsafePtr:
		return v.p == nil
	}
	return false
}

// copyVal implements Go value semantics for aggregates.
func copyVal(v Value) Value {
	switch v.k {
	case KArray, KStruct:
		src := v.p.([]Value)
		dst := make([]Value, len(src))
		for i := range src {
			dst[i] = copyVal(src[i])
		}
		return Value{k: v.k, p: dst}
	}
	return v
}

func intWidth(b *types.Basic) (uint8, bool) {
	switch b.Kind() {
	case types.Int8:
		return 8, true
	case types.Uint8:
		return 8, false
	case types.Int16:
		return 16, true
	case types.Uint16:
		return 16, false
	case types.Int32:
		return 32, true
	case types.Uint32:
		return 32, false
	case types.Int64, types.Int, types.UntypedInt, types.UntypedRune:
		return 64, true
	case types.Uint64, types.Uint, types.Uintptr:
		return 64, false
	}
	panic("intWidth: " + b.String())
}

func isIntBasic(b *types.Basic) bool { return b.Info()&types.IsInteger != 0 }

func zeroValue(t types.Type) Value {
	switch t := t.(type) {
	case *types.Basic:
		switch {
		case t.Kind() == types.UnsafePointer:
			return Value{k: KUnsafePtr}
		case t.Info()&types.IsBoolean != 0:
			return Value{k: KBool}
		case t.Info()&types.IsInteger != 0:
			w, _ := intWidth(t)
			return Value{k: KInt, w: w}
		case t.Info()&types.IsFloat != 0:
			if t.Kind() == types.Float32 {
				return Value{k: KFloat, w: 32}
			}
			return Value{k: KFloat, w: 64}
		case t.Info()&types.IsString != 0:
			return Value{k: KString}
		case t.Info()&types.IsComplex != 0:
			return Value{k: KComplex, p: Complex{}}
		case t.Kind() == types.UntypedNil:
			return Value{k: KPtr}
		}
	case *types.Pointer:
		return Value{k: KPtr}
	case *types.Slice:
		return Value{k: KSlice}
	case *types.Array:
		n := int(t.Len())
		el := make([]Value, n)
		if n > 0 {
			z := zeroValue(t.Elem())
			if z.k == KArray || z.k == KStruct {
				for i := range el {
					el[i] = copyVal(z)
				}
			} else {
				for i := range el {
					el[i] = z
				}
			}
		}
		return Value{k: KArray, p: el}
	case *types.Struct:
		n := t.NumFields()
		f := make([]Value, n)
		for i := 0; i < n; i++ {
			f[i] = zeroValue(t.Field(i).Type())
		}
		return Value{k: KStruct, p: f}
	case *types.Interface:
		return Value{k: KIface}
	case *types.Map:
		return Value{k: KMap}
	case *types.Signature:
		return Value{k: KFunc}
	case *types.Chan:
		return Value{k: KChan}
	case *types.Named:
		return zeroValue(t.Underlying())
	case *types.Alias:
		return zeroValue(types.Unalias(t))
	case *types.Tuple:
		n := t.Len()
		f := make([]Value, n)
		for i := 0; i < n; i++ {
			f[i] = zeroValue(t.At(i).Type())
		}
		return Value{k: KTuple, p: f}
	case *types.TypeParam:
		panic(pathAbort{kind: "unsupported", msg: "zero value of type parameter " + t.String()})
	}
	panic(fmt.Sprintf("zeroValue: %T %v", t, t))
}

// describe renders a value for diagnostics / sample output.
func describe(v Value) string {
	return describeD(v, 0)
}

func describeD(v Value, d int) string {
	if d > 3 {
		return "…"
	}
	switch v.k {
	case KBool:
		if v.p != nil {
			return v.term().String()
		}
		return fmt.Sprint(v.c != 0)
	case KInt:
		if v.p != nil {
			return v.term().String()
		}
		return fmt.Sprint(v.c)
	case KFloat:
		return fmt.Sprint(v.float())
	case KString:
		if s, ok := v.p.(string); ok {
			return fmt.Sprintf("%q", s)
		}
		if v.p == nil {
			return `""`
		}
		return fmt.Sprintf("symstr[%d]", strLen(v))
	case KPtr:
		if v.p == nil {
			return "nil"
		}
		if p := v.ptr(); p != nil {
			return "&" + describeD(*p, d+1)
		}
		return "symptr"
	case KSlice, KArray, KStruct, KTuple:
		if v.p == nil {
			return "nil"
		}
		var sb strings.Builder
		sb.WriteString(kindNames[v.k][:1] + "{")
		for i, e := range v.p.([]Value) {
			if i > 0 {
				sb.WriteString(",")
			}
			if i > 8 {
				sb.WriteString("…")
				break
			}
			sb.WriteString(describeD(e, d+1))
		}
		sb.WriteString("}")
		return sb.String()
	case KIface:
		if v.p == nil {
			return "nil"
		}
		i := v.iface()
		return fmt.Sprintf("%s(%s)", i.t, describeD(i.v, d+1))
	case KFunc:
		if v.p == nil {
			return "nil"
		}
		c := v.closure()
		if c.fn != nil {
			return "func " + c.fn.String()
		}
		return "builtin"
	}
	return kindNames[v.k]
}
