package main

// UTF-8 decoding / encoding over byte and rune values that may be symbolic. The
// sizes are decided by case splits (decideBool) that follow unicode/utf8's own
// algorithm, so each path sees one concrete layout; the rune / byte values stay
// terms.

// decodeRuneAt decodes the rune starting at bs[i] (Go semantics: an invalid or
// truncated sequence yields (RuneError, 1)).
func (w *W) decodeRuneAt(bs []Value, i int) (Value, int) {
	ts := w.ts
	c8 := func(c uint64) *Term { return ts.Const(8, c) }
	b0 := w.intTerm(bs[i])
	between := func(t *Term, lo, hi uint64) bool {
		return w.decideBool(ts.BAnd(ts.Cmp(OUle, c8(lo), t), ts.Cmp(OUle, t, c8(hi))))
	}
	bad := func() (Value, int) { return mkInt(32, 0xFFFD), 1 }
	if w.decideBool(ts.Cmp(OUlt, b0, c8(0x80))) {
		return mkSymInt(ts.ZExt(b0, 32)), 1
	}
	if w.decideBool(ts.Cmp(OUlt, b0, c8(0xC2))) || w.decideBool(ts.Cmp(OUlt, c8(0xF4), b0)) {
		return bad()
	}
	cont := func(t *Term) *Term { return ts.ZExt(ts.Bin(OAnd, t, c8(0x3F)), 32) }
	sh := func(t *Term, n uint64) *Term { return ts.Bin(OShl, t, ts.Const(32, n)) }
	// 2-byte
	if w.decideBool(ts.Cmp(OUlt, b0, c8(0xE0))) {
		if i+1 >= len(bs) {
			return bad()
		}
		b1 := w.intTerm(bs[i+1])
		if !between(b1, 0x80, 0xBF) {
			return bad()
		}
		r := ts.Bin(OOr, sh(ts.ZExt(ts.Bin(OAnd, b0, c8(0x1F)), 32), 6), cont(b1))
		return mkSymInt(r), 2
	}
	// 3-byte
	if w.decideBool(ts.Cmp(OUlt, b0, c8(0xF0))) {
		if i+1 >= len(bs) {
			return bad()
		}
		lo, hi := uint64(0x80), uint64(0xBF)
		if w.decideBool(ts.Cmp(OEq, b0, c8(0xE0))) {
			lo = 0xA0
		} else if w.decideBool(ts.Cmp(OEq, b0, c8(0xED))) {
			hi = 0x9F
		}
		b1 := w.intTerm(bs[i+1])
		if !between(b1, lo, hi) {
			return bad()
		}
		if i+2 >= len(bs) {
			return bad()
		}
		b2 := w.intTerm(bs[i+2])
		if !between(b2, 0x80, 0xBF) {
			return bad()
		}
		r := ts.Bin(OOr, ts.Bin(OOr, sh(ts.ZExt(ts.Bin(OAnd, b0, c8(0x0F)), 32), 12), sh(cont(b1), 6)), cont(b2))
		return mkSymInt(r), 3
	}
	// 4-byte
	if i+1 >= len(bs) {
		return bad()
	}
	lo, hi := uint64(0x80), uint64(0xBF)
	if w.decideBool(ts.Cmp(OEq, b0, c8(0xF0))) {
		lo = 0x90
	} else if w.decideBool(ts.Cmp(OEq, b0, c8(0xF4))) {
		hi = 0x8F
	}
	b1 := w.intTerm(bs[i+1])
	if !between(b1, lo, hi) {
		return bad()
	}
	if i+2 >= len(bs) {
		return bad()
	}
	b2 := w.intTerm(bs[i+2])
	if !between(b2, 0x80, 0xBF) {
		return bad()
	}
	if i+3 >= len(bs) {
		return bad()
	}
	b3 := w.intTerm(bs[i+3])
	if !between(b3, 0x80, 0xBF) {
		return bad()
	}
	r := ts.Bin(OOr, ts.Bin(OOr, ts.Bin(OOr, sh(ts.ZExt(ts.Bin(OAnd, b0, c8(0x07)), 32), 18), sh(cont(b1), 12)), sh(cont(b2), 6)), cont(b3))
	return mkSymInt(r), 4
}

// encodeRune appends the UTF-8 encoding of a (possibly symbolic, 32-bit, signed) rune.
func (w *W) encodeRune(out []Value, rv Value) []Value {
	ts := w.ts
	r := w.intTerm(rv)
	if r.w != 32 {
		if r.w > 32 {
			// wider integer converted to string: out of range -> RuneError
			if !w.decideBool(ts.Cmp(OUle, r, ts.Const(r.w, 0x10FFFF))) {
				return append(out, mkInt(8, 0xEF), mkInt(8, 0xBF), mkInt(8, 0xBD))
			}
			r = ts.Extract(r, 31, 0)
		} else {
			r = ts.ZExt(r, 32)
		}
	}
	c := func(v uint64) *Term { return ts.Const(32, v) }
	b := func(t *Term) Value { return mkSymInt(ts.Extract(t, 7, 0)) }
	shr := func(t *Term, n uint64) *Term { return ts.Bin(OLShr, t, c(n)) }
	low6 := func(t *Term) *Term { return ts.Bin(OOr, ts.Bin(OAnd, t, c(0x3F)), c(0x80)) }
	if w.decideBool(ts.Cmp(OUlt, r, c(0x80))) {
		return append(out, b(r))
	}
	if w.decideBool(ts.Cmp(OUlt, r, c(0x800))) {
		return append(out, b(ts.Bin(OOr, shr(r, 6), c(0xC0))), b(low6(r)))
	}
	if w.decideBool(ts.Cmp(OUlt, c(0x10FFFF), r)) ||
		w.decideBool(ts.BAnd(ts.Cmp(OUle, c(0xD800), r), ts.Cmp(OUle, r, c(0xDFFF)))) {
		return append(out, mkInt(8, 0xEF), mkInt(8, 0xBF), mkInt(8, 0xBD))
	}
	if w.decideBool(ts.Cmp(OUlt, r, c(0x10000))) {
		return append(out, b(ts.Bin(OOr, shr(r, 12), c(0xE0))), b(low6(shr(r, 6))), b(low6(r)))
	}
	return append(out, b(ts.Bin(OOr, shr(r, 18), c(0xF0))), b(low6(shr(r, 12))), b(low6(shr(r, 6))), b(low6(r)))
}
