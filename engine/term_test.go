package main

import (
	"math/rand"
	"os"
	"strconv"
	"testing"
)

// TestSimplifierSound builds random terms through the simplifying constructors and
// checks, on random assignments, that the simplified term evaluates to the value
// computed directly from the operator semantics.
func TestSimplifierSound(t *testing.T) {
	seed := int64(1)
	if v, err := strconv.ParseInt(os.Getenv("GOSYM_TEST_SEED"), 10, 64); err == nil {
		seed = v
	}
	rng := rand.New(rand.NewSource(seed))
	widths := []uint8{1, 3, 8, 9, 16, 32, 64}
	for iter := 0; iter < 60000; iter++ {
		ts := NewTermStore()
		nv := 3
		model := make([]uint64, nv)
		vars := make([]*Term, nv)
		for i := range vars {
			w := widths[rng.Intn(len(widths))]
			vars[i] = ts.Var(w, "x")
			model[i] = rng.Uint64() & mask(w)
			if rng.Intn(4) == 0 {
				model[i] = uint64(rng.Intn(3)) & mask(w)
			}
		}
		type tv struct {
			t *Term
			v uint64
		}
		pool := []tv{}
		for i, v := range vars {
			pool = append(pool, tv{v, model[i]})
		}
		for i := 0; i < 4; i++ {
			w := widths[rng.Intn(len(widths))]
			c := rng.Uint64() & mask(w)
			switch rng.Intn(4) {
			case 0:
				c = uint64(rng.Intn(4)) & mask(w)
			case 1:
				c = (uint64(1) << uint(rng.Intn(int(w)))) & mask(w)
			case 2:
				c = (^uint64(0) << uint(rng.Intn(int(w)))) & mask(w)
			}
			pool = append(pool, tv{ts.Const(w, c), c})
		}
		bools := []tv{{ts.tTrue, 1}, {ts.tFals, 0}}
		pick := func(w uint8) (tv, bool) {
			var c []tv
			for _, p := range pool {
				if p.t.w == w {
					c = append(c, p)
				}
			}
			if len(c) == 0 {
				return tv{}, false
			}
			return c[rng.Intn(len(c))], true
		}
		for step := 0; step < 40; step++ {
			a := pool[rng.Intn(len(pool))]
			switch rng.Intn(12) {
			case 0, 1, 2:
				b, ok := pick(a.t.w)
				if !ok {
					continue
				}
				ops := []Op{OAdd, OAdd, OSub, OMul, OAnd, OAnd, OOr, OOr, OOr, OXor, OShl, OShl, OLShr, OAShr, OUDiv, OURem, OSDiv, OSRem}
				op := ops[rng.Intn(len(ops))]
				if (op == OUDiv || op == OURem || op == OSDiv || op == OSRem) && b.v == 0 {
					continue
				}
				pool = append(pool, tv{ts.Bin(op, a.t, b.t), evalBin(op, a.t.w, a.v, b.v)})
			case 3:
				pool = append(pool, tv{ts.Not(a.t), ^a.v & mask(a.t.w)})
			case 4:
				pool = append(pool, tv{ts.Neg(a.t), -a.v & mask(a.t.w)})
			case 5:
				w := widths[rng.Intn(len(widths))]
				if w < a.t.w {
					pool = append(pool, tv{ts.ZExt(a.t, w), a.v & mask(w)})
				} else {
					pool = append(pool, tv{ts.ZExt(a.t, w), a.v})
				}
			case 6:
				w := widths[rng.Intn(len(widths))]
				if w < a.t.w {
					pool = append(pool, tv{ts.SExt(a.t, w), a.v & mask(w)})
				} else {
					pool = append(pool, tv{ts.SExt(a.t, w), uint64(sext(a.v, a.t.w)) & mask(w)})
				}
			case 7:
				hi := uint8(rng.Intn(int(a.t.w)))
				lo := uint8(rng.Intn(int(hi) + 1))
				pool = append(pool, tv{ts.Extract(a.t, hi, lo), (a.v >> lo) & mask(hi-lo+1)})
			case 8:
				b, ok := pick(a.t.w)
				if !ok {
					continue
				}
				ops := []Op{OEq, OUlt, OUle, OSlt, OSle}
				op := ops[rng.Intn(len(ops))]
				r := uint64(0)
				if evalCmp(op, a.t.w, a.v, b.v) {
					r = 1
				}
				bools = append(bools, tv{ts.Cmp(op, a.t, b.t), r})
			case 9:
				b, ok := pick(a.t.w)
				if !ok {
					continue
				}
				c := bools[rng.Intn(len(bools))]
				v := b.v
				if c.v != 0 {
					v = a.v
				}
				pool = append(pool, tv{ts.Ite(c.t, a.t, b.t), v})
			case 10:
				x := bools[rng.Intn(len(bools))]
				y := bools[rng.Intn(len(bools))]
				switch rng.Intn(4) {
				case 0:
					bools = append(bools, tv{ts.BAnd(x.t, y.t), x.v & y.v})
				case 1:
					bools = append(bools, tv{ts.BOr(x.t, y.t), x.v | y.v})
				case 2:
					bools = append(bools, tv{ts.BNot(x.t), x.v ^ 1})
				case 3:
					r := uint64(0)
					if x.v == y.v {
						r = 1
					}
					bools = append(bools, tv{ts.Cmp(OEq, x.t, y.t), r})
				}
			case 11:
				b := pool[rng.Intn(len(pool))]
				if int(a.t.w)+int(b.t.w) > 64 {
					continue
				}
				pool = append(pool, tv{ts.Concat(a.t, b.t), a.v<<b.t.w | b.v})
			}
		}
		memo := map[int]uint64{}
		for _, p := range append(pool, bools...) {
			got := p.t.Eval(model, memo)
			if got != p.v {
				t.Fatalf("iter %d: term %s evaluates to %#x, expected %#x (model %v)", iter, p.t, got, p.v, model)
			}
			if p.t.w > 0 && p.t.tz > 0 && p.v&mask(p.t.tz) != 0 {
				t.Fatalf("iter %d: term %s claims %d low zero bits but value %#x", iter, p.t, p.t.tz, p.v)
			}
			if p.t.w > 0 && p.v&^p.t.pm != 0 {
				t.Fatalf("iter %d: term %s has possible-bits mask %#x but value %#x", iter, p.t, p.t.pm, p.v)
			}
			if p.t.w > 0 && p.t.ew < 64 && p.v>>p.t.ew != 0 {
				t.Fatalf("iter %d: term %s has effective width %d but value %#x", iter, p.t, p.t.ew, p.v)
			}
		}
	}
}
