package main

import (
	"fmt"
	"go/token"
	"go/types"
	"math"
	"strconv"
	"strings"
	"unicode/utf8"

	"golang.org/x/tools/go/ssa"
)

func basicOf(t types.Type) *types.Basic {
	b, _ := t.Underlying().(*types.Basic)
	return b
}

func (w *W) unop(fr *frame, ins *ssa.UnOp, x Value) Value {
	switch ins.Op {
	case token.SUB:
		switch x.k {
		case KInt:
			if x.p == nil {
				return mkInt(x.w, -x.c)
			}
			return mkSymInt(w.ts.Neg(x.term()))
		case KFloat:
			return mkFloat(-x.float(), x.w)
		case KComplex:
			c := x.p.(Complex)
			return Value{k: KComplex, p: Complex{-c.re, -c.im}}
		}
	case token.NOT:
		if x.p == nil {
			return mkBool(x.c == 0)
		}
		return mkSymBool(w.ts.BNot(x.term()))
	case token.XOR:
		if x.p == nil {
			return mkInt(x.w, ^x.c)
		}
		return mkSymInt(w.ts.Not(x.term()))
	case token.ARROW:
		w.unsupported("channel receive")
	}
	panic(fmt.Sprintf("unop %v on %s", ins.Op, kindNames[x.k]))
}

func (w *W) binop(fr *frame, ins ssa.Instruction, op token.Token, xt types.Type, x, y Value) Value {
	switch op {
	case token.EQL:
		return w.equalVals(x, y)
	case token.NEQ:
		e := w.equalVals(x, y)
		if e.p == nil {
			return mkBool(e.c == 0)
		}
		return mkSymBool(w.ts.BNot(e.term()))
	}
	switch x.k {
	case KInt:
		return w.intBinop(fr, ins, op, xt, x, y)
	case KFloat:
		a, b := x.float(), y.float()
		r := func(f float64) Value {
			if x.w == 32 {
				return mkFloat(float64(float32(f)), 32)
			}
			return mkFloat(f, 64)
		}
		switch op {
		case token.ADD:
			return r(a + b)
		case token.SUB:
			return r(a - b)
		case token.MUL:
			return r(a * b)
		case token.QUO:
			return r(a / b)
		case token.LSS:
			return mkBool(a < b)
		case token.LEQ:
			return mkBool(a <= b)
		case token.GTR:
			return mkBool(a > b)
		case token.GEQ:
			return mkBool(a >= b)
		}
	case KString:
		switch op {
		case token.ADD:
			return strConcat(x, y)
		case token.LSS:
			return w.strLess(x, y, false)
		case token.LEQ:
			return w.strLess(x, y, true)
		case token.GTR:
			return w.strLess(y, x, false)
		case token.GEQ:
			return w.strLess(y, x, true)
		}
	case KComplex:
		a, b := x.p.(Complex), y.p.(Complex)
		ca, cb := complex(a.re, a.im), complex(b.re, b.im)
		var r complex128
		switch op {
		case token.ADD:
			r = ca + cb
		case token.SUB:
			r = ca - cb
		case token.MUL:
			r = ca * cb
		case token.QUO:
			r = ca / cb
		}
		return Value{k: KComplex, p: Complex{real(r), imag(r)}}
	}
	panic(fmt.Sprintf("binop %v on %s", op, kindNames[x.k]))
}

func (w *W) intBinop(fr *frame, ins ssa.Instruction, op token.Token, xt types.Type, x, y Value) Value {
	_, signed := intWidth(basicOf(xt))
	wd := x.w
	switch op {
	case token.SHL, token.SHR:
		return w.shift(fr, ins, op, signed, x, y)
	}
	if x.p == nil && y.p == nil {
		a, b := x.c, y.c
		switch op {
		case token.ADD:
			return mkInt(wd, a+b)
		case token.SUB:
			return mkInt(wd, a-b)
		case token.MUL:
			return mkInt(wd, a*b)
		case token.QUO, token.REM:
			if b == 0 {
				w.rtPanic(fr, ins, "integer divide by zero")
			}
			var o Op
			switch {
			case op == token.QUO && signed:
				o = OSDiv
			case op == token.QUO:
				o = OUDiv
			case signed:
				o = OSRem
			default:
				o = OURem
			}
			return mkInt(wd, evalBin(o, wd, a, b))
		case token.AND:
			return mkInt(wd, a&b)
		case token.OR:
			return mkInt(wd, a|b)
		case token.XOR:
			return mkInt(wd, a^b)
		case token.AND_NOT:
			return mkInt(wd, a&^b)
		case token.LSS:
			if signed {
				return mkBool(sext(a, wd) < sext(b, wd))
			}
			return mkBool(a < b)
		case token.LEQ:
			if signed {
				return mkBool(sext(a, wd) <= sext(b, wd))
			}
			return mkBool(a <= b)
		case token.GTR:
			if signed {
				return mkBool(sext(a, wd) > sext(b, wd))
			}
			return mkBool(a > b)
		case token.GEQ:
			if signed {
				return mkBool(sext(a, wd) >= sext(b, wd))
			}
			return mkBool(a >= b)
		}
		panic("int binop " + op.String())
	}
	a, b := w.intTerm(x), w.intTerm(y)
	ts := w.ts
	switch op {
	case token.ADD:
		return mkSymInt(ts.Bin(OAdd, a, b))
	case token.SUB:
		return mkSymInt(ts.Bin(OSub, a, b))
	case token.MUL:
		return mkSymInt(ts.Bin(OMul, a, b))
	case token.QUO, token.REM:
		w.curSite = w.site(fr, ins)
		if w.decideBool(ts.Cmp(OEq, b, ts.Const(wd, 0))) {
			w.rtPanic(fr, ins, "integer divide by zero")
		}
		switch {
		case op == token.QUO && signed:
			return mkSymInt(ts.Bin(OSDiv, a, b))
		case op == token.QUO:
			return mkSymInt(ts.Bin(OUDiv, a, b))
		case signed:
			return mkSymInt(ts.Bin(OSRem, a, b))
		default:
			return mkSymInt(ts.Bin(OURem, a, b))
		}
	case token.AND:
		return mkSymInt(ts.Bin(OAnd, a, b))
	case token.OR:
		return mkSymInt(ts.Bin(OOr, a, b))
	case token.XOR:
		return mkSymInt(ts.Bin(OXor, a, b))
	case token.AND_NOT:
		return mkSymInt(ts.Bin(OAnd, a, ts.Not(b)))
	case token.LSS:
		if signed {
			return mkSymBool(ts.Cmp(OSlt, a, b))
		}
		return mkSymBool(ts.Cmp(OUlt, a, b))
	case token.LEQ:
		if signed {
			return mkSymBool(ts.Cmp(OSle, a, b))
		}
		return mkSymBool(ts.Cmp(OUle, a, b))
	case token.GTR:
		if signed {
			return mkSymBool(ts.Cmp(OSlt, b, a))
		}
		return mkSymBool(ts.Cmp(OUlt, b, a))
	case token.GEQ:
		if signed {
			return mkSymBool(ts.Cmp(OSle, b, a))
		}
		return mkSymBool(ts.Cmp(OUle, b, a))
	}
	panic("int binop " + op.String())
}

func (w *W) shift(fr *frame, ins ssa.Instruction, op token.Token, xSigned bool, x, y Value) Value {
	wd := x.w
	// the shift count's signedness comes from its static type
	ySigned := false
	if bo, ok := ins.(*ssa.BinOp); ok {
		if b := basicOf(bo.Y.Type()); b != nil && b.Info()&types.IsInteger != 0 {
			_, ySigned = intWidth(b)
		}
	}
	if y.p == nil {
		cnt := y.c
		if ySigned && sext(cnt, y.w) < 0 {
			w.rtPanic(fr, ins, "negative shift amount")
		}
		if x.p == nil {
			switch {
			case op == token.SHL:
				return mkInt(wd, evalBin(OShl, wd, x.c, cnt))
			case xSigned:
				return mkInt(wd, evalBin(OAShr, wd, x.c, cnt))
			default:
				return mkInt(wd, evalBin(OLShr, wd, x.c, cnt))
			}
		}
		if cnt >= uint64(wd) {
			if op == token.SHR && xSigned {
				cnt = uint64(wd) - 1
			} else {
				return mkInt(wd, 0)
			}
		}
		k := w.ts.Const(wd, cnt)
		switch {
		case op == token.SHL:
			return mkSymInt(w.ts.Bin(OShl, x.term(), k))
		case xSigned:
			return mkSymInt(w.ts.Bin(OAShr, x.term(), k))
		default:
			return mkSymInt(w.ts.Bin(OLShr, x.term(), k))
		}
	}
	// symbolic count
	ts := w.ts
	yt := y.term()
	if ySigned {
		w.curSite = w.site(fr, ins)
		if w.decideBool(ts.Cmp(OSlt, yt, ts.Const(y.w, 0))) {
			w.rtPanic(fr, ins, "negative shift amount")
		}
	}
	// bring count to x's width, saturating
	var cnt *Term
	var big *Term // count >= width
	if y.w > wd {
		big = ts.Cmp(OUle, ts.Const(y.w, uint64(wd)), yt)
		cnt = ts.Extract(yt, wd-1, 0)
	} else {
		cnt = ts.ZExt(yt, wd)
		big = ts.Cmp(OUle, ts.Const(wd, uint64(wd)), cnt)
	}
	xt := w.intTerm(x)
	var o Op
	switch {
	case op == token.SHL:
		o = OShl
	case xSigned:
		o = OAShr
	default:
		o = OLShr
	}
	var sat *Term
	if o == OAShr {
		sat = ts.Bin(OAShr, xt, ts.Const(wd, uint64(wd)-1))
	} else {
		sat = ts.Const(wd, 0)
	}
	return mkSymInt(ts.Ite(big, sat, ts.Bin(o, xt, cnt)))
}

func (w *W) strLess(x, y Value, orEq bool) Value {
	xs, xok := x.p.(string)
	ys, yok := y.p.(string)
	if x.p == nil {
		xok = true
	}
	if y.p == nil {
		yok = true
	}
	if xok && yok {
		if orEq {
			return mkBool(xs <= ys)
		}
		return mkBool(xs < ys)
	}
	xb, yb := strBytes(x), strBytes(y)
	n := len(xb)
	if len(yb) < n {
		n = len(yb)
	}
	// result for common prefix equal
	var acc *Term
	if len(xb) < len(yb) || (orEq && len(xb) == len(yb)) {
		acc = w.ts.tTrue
	} else {
		acc = w.ts.tFals
	}
	for i := n - 1; i >= 0; i-- {
		a, b := w.intTerm(xb[i]), w.intTerm(yb[i])
		acc = w.ts.Ite(w.ts.Cmp(OUlt, a, b), w.ts.tTrue, w.ts.Ite(w.ts.Cmp(OUlt, b, a), w.ts.tFals, acc))
	}
	return mkSymBool(acc)
}

// equalVals implements == (result may be a symbolic bool).
func (w *W) equalVals(x, y Value) Value {
	t := w.eqTerm(x, y)
	return mkSymBool(t)
}

func (w *W) eqTerm(x, y Value) *Term {
	ts := w.ts
	if x.k != y.k {
		// nil constants may be typed differently (e.g. KPtr zero for untyped nil)
		if x.isNil() || y.isNil() || x.k == KInvalid || y.k == KInvalid {
			return ts.Bool(x.p == nil && y.p == nil)
		}
		panic(fmt.Sprintf("equality between %s and %s", kindNames[x.k], kindNames[y.k]))
	}
	switch x.k {
	case KBool:
		if x.p == nil && y.p == nil {
			return ts.Bool(x.c == y.c)
		}
		return ts.Cmp(OEq, w.boolTerm(x), w.boolTerm(y))
	case KInt:
		if x.p == nil && y.p == nil {
			return ts.Bool(x.c == y.c)
		}
		return ts.Cmp(OEq, w.intTerm(x), w.intTerm(y))
	case KFloat:
		return ts.Bool(x.float() == y.float())
	case KComplex:
		return ts.Bool(x.p.(Complex) == y.p.(Complex))
	case KString:
		if strLen(x) != strLen(y) {
			return ts.tFals
		}
		xs, xok := x.p.(string)
		ys, yok := y.p.(string)
		if x.p == nil {
			xok = true
		}
		if y.p == nil {
			yok = true
		}
		if xok && yok {
			return ts.Bool(xs == ys)
		}
		acc := ts.tTrue
		n := strLen(x)
		for i := 0; i < n; i++ {
			a, b := strAt(x, i), strAt(y, i)
			acc = ts.BAnd(acc, w.eqTerm(a, b))
			if acc == ts.tFals {
				return acc
			}
		}
		return acc
	case KPtr:
		if x.p == nil || y.p == nil {
			return ts.Bool(x.p == nil && y.p == nil)
		}
		xp, xok := x.p.(*Value)
		yp, yok := y.p.(*Value)
		if xok && yok {
			return ts.Bool(xp == yp)
		}
		w.unsupported("equality of symbolic element pointers")
	case KIface:
		xi, yi := x.iface(), y.iface()
		if xi == nil || yi == nil {
			return ts.Bool(xi == nil && yi == nil)
		}
		if !types.Identical(xi.t, yi.t) {
			return ts.tFals
		}
		if !types.Comparable(xi.t) {
			panic(goPanic{v: w.runtimeError("comparing uncomparable type " + xi.t.String()), site: w.curSite})
		}
		return w.eqTerm(xi.v, yi.v)
	case KStruct, KArray:
		xf, yf := x.p.([]Value), y.p.([]Value)
		acc := ts.tTrue
		for i := range xf {
			acc = ts.BAnd(acc, w.eqTerm(xf[i], yf[i]))
			if acc == ts.tFals {
				return acc
			}
		}
		return acc
	case KSlice, KMap, KFunc:
		return ts.Bool(x.p == nil && y.p == nil)
	case KChan, KUnsafePtr:
		return ts.Bool(x.p == y.p)
	case KInvalid:
		return ts.tTrue
	}
	panic("eqTerm kind " + kindNames[x.k])
}

// ---- conversions ------------------------------------------------------------

func (w *W) convert(fr *frame, ins ssa.Instruction, from, to types.Type, x Value) Value {
	uf, ut := from.Underlying(), to.Underlying()
	switch ut := ut.(type) {
	case *types.Basic:
		switch {
		case ut.Info()&types.IsInteger != 0:
			tw, _ := intWidth(ut)
			switch x.k {
			case KInt:
				_, fsigned := intWidth(uf.(*types.Basic))
				if x.p == nil {
					if fsigned {
						return mkInt(tw, uint64(sext(x.c, x.w)))
					}
					return mkInt(tw, x.c)
				}
				if fsigned {
					return mkSymInt(w.ts.SExt(x.term(), tw))
				}
				return mkSymInt(w.ts.ZExt(x.term(), tw))
			case KFloat:
				f := x.float()
				_, tsigned := intWidth(ut)
				if tsigned {
					return mkInt(tw, uint64(int64(f)))
				}
				return mkInt(tw, uint64(f))
			case KUnsafePtr:
				w.unsupported("conversion unsafe.Pointer -> uintptr")
			}
		case ut.Info()&types.IsFloat != 0:
			bits := uint8(64)
			if ut.Kind() == types.Float32 {
				bits = 32
			}
			rnd := func(f float64) Value {
				if bits == 32 {
					return mkFloat(float64(float32(f)), 32)
				}
				return mkFloat(f, 64)
			}
			switch x.k {
			case KInt:
				if x.p != nil {
					w.unsupported("symbolic int -> float")
				}
				_, fsigned := intWidth(uf.(*types.Basic))
				if fsigned {
					return rnd(float64(sext(x.c, x.w)))
				}
				return rnd(float64(x.c))
			case KFloat:
				return rnd(x.float())
			}
		case ut.Info()&types.IsString != 0:
			switch x.k {
			case KString:
				return x
			case KInt:
				w.curSite = w.site(fr, ins)
				_, fsigned := intWidth(uf.(*types.Basic))
				t := w.intTerm(x)
				if fsigned && t.w < 32 {
					t = w.ts.SExt(t, 32)
				}
				if fsigned && t.w > 32 {
					// negative or too large -> RuneError (handled by the unsigned range test)
				}
				return mkStrFromBytes(w.encodeRune(nil, mkSymInt(t)))
			case KSlice:
				el := uf.(*types.Slice).Elem().Underlying().(*types.Basic)
				if el.Kind() == types.Uint8 {
					return mkStrFromBytes(x.slice())
				}
				// []rune
				w.curSite = w.site(fr, ins)
				var out []Value
				for _, rv := range x.slice() {
					out = w.encodeRune(out, rv)
				}
				return mkStrFromBytes(out)
			}
		case ut.Info()&types.IsComplex != 0:
			return x
		case ut.Kind() == types.UnsafePointer:
			w.unsupported("conversion to unsafe.Pointer")
		case ut.Info()&types.IsBoolean != 0:
			return x
		}
	case *types.Slice:
		if x.k == KString {
			el := ut.Elem().Underlying().(*types.Basic)
			if el.Kind() == types.Uint8 {
				b := strBytes(x)
				if b == nil {
					b = []Value{}
				}
				return mkSlice(b)
			}
			// []rune
			w.curSite = w.site(fr, ins)
			bs := strBytes(x)
			out := []Value{}
			for i := 0; i < len(bs); {
				r, sz := w.decodeRuneAt(bs, i)
				out = append(out, r)
				i += sz
			}
			return mkSlice(out)
		}
		return x
	case *types.Pointer:
		if x.k == KUnsafePtr {
			w.unsupported("conversion from unsafe.Pointer")
		}
		return x
	}
	if types.Identical(uf, ut) {
		return x
	}
	w.unsupported("conversion %s -> %s", from, to)
	return Value{}
}

// ---- builtins ---------------------------------------------------------------

func growCap(oldCap, newLen int) int {
	newcap := oldCap
	doublecap := newcap + newcap
	if newLen > doublecap {
		return newLen
	}
	const threshold = 256
	if oldCap < threshold {
		if doublecap == 0 {
			return newLen
		}
		return doublecap
	}
	for newcap < newLen {
		newcap += (newcap + 3*threshold) >> 2
	}
	return newcap
}

func (w *W) appendVals(s []Value, elems []Value, elemZero func() Value) []Value {
	n := len(s) + len(elems)
	if n <= cap(s) {
		ns := s[:n]
		// elems may alias the destination: snapshot first
		tmp := make([]Value, len(elems))
		for i, e := range elems {
			tmp[i] = copyVal(e)
		}
		for i := range tmp {
			w.assign(&ns[len(s)+i], tmp[i])
		}
		return ns
	}
	nc := growCap(cap(s), n)
	ns := make([]Value, n, nc)
	for i := range s {
		ns[i] = copyVal(s[i])
	}
	for i, e := range elems {
		ns[len(s)+i] = copyVal(e)
	}
	// spare capacity must hold zero values of the element type
	if nc > n {
		ext := ns[n:nc]
		for i := range ext {
			ext[i] = elemZero()
		}
	}
	return ns
}

func (w *W) builtin(fr *frame, bi *ssa.Builtin, args []Value) Value {
	switch bi.Name() {
	case "len":
		x := args[0]
		switch x.k {
		case KString:
			return mkInt(64, uint64(strLen(x)))
		case KSlice:
			return mkInt(64, uint64(len(x.slice())))
		case KMap:
			if x.p == nil {
				return mkInt(64, 0)
			}
			return mkInt(64, uint64(x.p.(*MapObj).live))
		case KArray:
			return mkInt(64, uint64(len(x.p.([]Value))))
		case KPtr:
			return mkInt(64, uint64(len(x.ptr().p.([]Value))))
		case KChan:
			w.unsupported("len(chan)")
		}
	case "cap":
		x := args[0]
		switch x.k {
		case KSlice:
			return mkInt(64, uint64(cap(x.slice())))
		case KArray:
			return mkInt(64, uint64(len(x.p.([]Value))))
		case KPtr:
			return mkInt(64, uint64(len(x.ptr().p.([]Value))))
		}
	case "append":
		s := args[0].slice()
		var elems []Value
		if args[1].k == KString {
			elems = strBytes(args[1])
		} else {
			elems = args[1].slice()
		}
		if len(elems) == 0 {
			return args[0]
		}
		elT := bi.Type().(*types.Signature).Params().At(0).Type().Underlying().(*types.Slice).Elem()
		var z Value
		zset := false
		ns := w.appendVals(s, elems, func() Value {
			if !zset {
				z = zeroValue(elT)
				zset = true
			}
			return copyVal(z)
		})
		return mkSlice(ns)
	case "copy":
		dst := args[0].slice()
		var src []Value
		if args[1].k == KString {
			src = strBytes(args[1])
		} else {
			src = args[1].slice()
		}
		n := len(dst)
		if len(src) < n {
			n = len(src)
		}
		if n > 0 {
			tmp := make([]Value, n)
			for i := 0; i < n; i++ {
				tmp[i] = copyVal(src[i])
			}
			for i := 0; i < n; i++ {
				w.assign(&dst[i], tmp[i])
			}
		}
		return mkInt(64, uint64(n))
	case "delete":
		if args[0].p != nil {
			w.mapDelete(args[0].p.(*MapObj), args[1])
		}
		return Value{}
	case "print", "println", "close":
		return Value{}
	case "recover":
		return w.doRecover(fr)
	case "ssa:wrapnilchk":
		if args[0].p == nil {
			w.rtPanic(fr, nil, "value method "+args[1].str()+"."+args[2].str()+" called using nil pointer")
		}
		return args[0]
	case "min", "max":
		isMax := bi.Name() == "max"
		acc := args[0]
		for _, a := range args[1:] {
			acc = w.minmax(bi, acc, a, isMax)
		}
		return acc
	case "clear":
		x := args[0]
		switch x.k {
		case KMap:
			if x.p != nil {
				m := x.p.(*MapObj)
				for _, e := range m.entries {
					if !e.deleted {
						w.mapDeleteEntry(m, e)
					}
				}
			}
		case KSlice:
			s := x.slice()
			if len(s) > 0 {
				elT := bi.Type().(*types.Signature).Params().At(0).Type().Underlying().(*types.Slice).Elem()
				for i := range s {
					w.assign(&s[i], zeroValue(elT))
				}
			}
		}
		return Value{}
	case "real":
		return mkFloat(args[0].p.(Complex).re, 64)
	case "imag":
		return mkFloat(args[0].p.(Complex).im, 64)
	case "complex":
		return Value{k: KComplex, p: Complex{args[0].float(), args[1].float()}}
	}
	w.unsupported("builtin %s", bi.Name())
	return Value{}
}

func (w *W) minmax(bi *ssa.Builtin, a, b Value, isMax bool) Value {
	t := bi.Type().(*types.Signature).Params().At(0).Type()
	op := token.LSS
	if isMax {
		op = token.GTR
	}
	c := w.binop(nil, nil, op, t, a, b)
	if c.p == nil {
		if c.c != 0 {
			return a
		}
		return b
	}
	if a.k == KInt {
		return mkSymInt(w.ts.Ite(c.term(), w.intTerm(a), w.intTerm(b)))
	}
	if w.decideBool(c.term()) {
		return a
	}
	return b
}

func (w *W) doRecover(fr *frame) Value {
	// recover() must be called directly by a deferred function: fr is that
	// function's frame and fr.caller is the panicking frame.
	if fr != nil && fr.caller != nil && fr.caller.panicking {
		fr.caller.panicking = false
		v := fr.caller.panicVal.v
		fr.caller.panicVal = goPanic{}
		return v
	}
	return Value{k: KIface}
}

// ---- maps -------------------------------------------------------------------

type mapEntry struct {
	key     Value
	val     Value
	hkey    string
	sym     bool
	deleted bool
}

type MapObj struct {
	entries []*mapEntry
	idx     map[string]*mapEntry
	nsym    int
	live    int
}

func newMap() *MapObj { return &MapObj{idx: map[string]*mapEntry{}} }

// keyEnc encodes a concrete key canonically; ok=false if it has symbolic parts.
func keyEnc(sb *strings.Builder, v Value) bool {
	switch v.k {
	case KBool, KInt:
		if v.p != nil {
			return false
		}
		sb.WriteString(strconv.FormatUint(v.c, 16))
		sb.WriteByte(';')
	case KFloat:
		sb.WriteString(strconv.FormatUint(math.Float64bits(v.float()), 16))
		sb.WriteByte(';')
	case KString:
		switch s := v.p.(type) {
		case nil:
			sb.WriteString("0:;")
		case string:
			sb.WriteString(strconv.Itoa(len(s)))
			sb.WriteByte(':')
			sb.WriteString(s)
			sb.WriteByte(';')
		default:
			return false
		}
	case KPtr, KChan, KUnsafePtr:
		fmt.Fprintf(sb, "%p;", v.p)
	case KIface:
		it := v.iface()
		if it == nil {
			sb.WriteString("nil;")
			return true
		}
		sb.WriteString(it.t.String())
		sb.WriteByte('|')
		return keyEnc(sb, it.v)
	case KStruct, KArray:
		sb.WriteByte('{')
		for _, f := range v.p.([]Value) {
			if !keyEnc(sb, f) {
				return false
			}
		}
		sb.WriteByte('}')
	case KComplex:
		fmt.Fprintf(sb, "%v;", v.p)
	default:
		panic("unhashable map key kind " + kindNames[v.k])
	}
	return true
}

func (w *W) mapFind(m *MapObj, key Value) *mapEntry {
	if w.traced != nil && !w.inMapSet {
		w.traceAccess("R", m)
	}
	var sb strings.Builder
	conc := keyEnc(&sb, key)
	if conc && m.nsym == 0 {
		e := m.idx[sb.String()]
		if e != nil && !e.deleted {
			return e
		}
		return nil
	}
	hk := sb.String()
	for _, e := range m.entries {
		if e.deleted {
			continue
		}
		if conc && !e.sym {
			if e.hkey == hk {
				return e
			}
			continue
		}
		if w.decideBool(w.eqTerm(key, e.key)) {
			return e
		}
	}
	return nil
}

func (w *W) mapSet(m *MapObj, key, val Value) {
	if w.traced != nil {
		w.traceAccess("W", m)
		if name, ok := w.traced[m]; ok && w.traceDeep {
			var sb strings.Builder
			keyEnc(&sb, key)
			w.traceEscape(val, name+"["+shortKey(sb.String())+"]", 0)
		} else if ok && val.k == KPtr {
			if p := val.ptr(); p != nil {
				var sb strings.Builder
				keyEnc(&sb, key)
				w.traceRegister(p, name+"["+shortKey(sb.String())+"]", 1)
			}
		}
		w.inMapSet = true
		defer func() { w.inMapSet = false }()
	}
	if e := w.mapFind(m, key); e != nil {
		w.store(&e.val, val)
		return
	}
	var sb strings.Builder
	conc := keyEnc(&sb, key)
	e := &mapEntry{key: copyVal(key), val: val, sym: !conc}
	if conc {
		e.hkey = sb.String()
		m.idx[e.hkey] = e
	} else {
		m.nsym++
	}
	m.entries = append(m.entries, e)
	m.live++
	if w.journaling {
		w.journal = append(w.journal, undoRec{fn: func() {
			m.entries = m.entries[:len(m.entries)-1]
			m.live--
			if conc {
				delete(m.idx, e.hkey)
			} else {
				m.nsym--
			}
		}})
	}
}

func (w *W) mapDeleteEntry(m *MapObj, e *mapEntry) {
	e.deleted = true
	m.live--
	if !e.sym {
		delete(m.idx, e.hkey)
	} else {
		m.nsym--
	}
	if w.journaling {
		w.journal = append(w.journal, undoRec{fn: func() {
			e.deleted = false
			m.live++
			if !e.sym {
				m.idx[e.hkey] = e
			} else {
				m.nsym++
			}
		}})
	}
}

func (w *W) mapDelete(m *MapObj, key Value) {
	if e := w.mapFind(m, key); e != nil {
		w.mapDeleteEntry(m, e)
	}
}

func (w *W) lookup(fr *frame, ins *ssa.Lookup, x, key Value) Value {
	w.curSite = w.site(fr, ins)
	if x.k == KString {
		key = idx64(w, fr, ins, ins.Index.Type(), key)
		return w.strIndex(fr, ins, x, key)
	}
	var e *mapEntry
	if x.p != nil {
		e = w.mapFind(x.p.(*MapObj), key)
	}
	var v Value
	if e != nil {
		v = copyVal(e.val)
	} else {
		v = zeroValue(ins.X.Type().Underlying().(*types.Map).Elem())
	}
	if ins.CommaOk {
		return Value{k: KTuple, p: []Value{v, mkBool(e != nil)}}
	}
	return v
}

// ---- range ------------------------------------------------------------------

type iterState struct {
	str   Value
	isStr bool
	pos   int
	m     *MapObj
	rest  []*mapEntry
	nd    bool
}

func (w *W) rangeInit(fr *frame, ins *ssa.Range, x Value) Value {
	it := &iterState{}
	if x.k == KString {
		it.isStr = true
		it.str = x
	} else {
		if x.p != nil {
			it.m = x.p.(*MapObj)
			for _, e := range it.m.entries {
				if !e.deleted {
					it.rest = append(it.rest, e)
				}
			}
		}
		it.nd = w.mapOrderND
	}
	return Value{k: KIter, p: it}
}

func (w *W) rangeNext(fr *frame, ins *ssa.Next, itv Value) Value {
	it := itv.p.(*iterState)
	if it.isStr {
		n := strLen(it.str)
		if it.pos >= n {
			return Value{k: KTuple, p: []Value{mkBool(false), mkInt(64, 0), mkInt(32, 0)}}
		}
		if cs, ok := it.str.p.(string); ok {
			r, sz := utf8.DecodeRuneInString(cs[it.pos:])
			i := it.pos
			it.pos += sz
			return Value{k: KTuple, p: []Value{mkBool(true), mkInt(64, uint64(i)), mkInt(32, uint64(uint32(r)))}}
		}
		w.curSite = w.site(fr, ins)
		r, sz := w.decodeRuneAt(it.str.p.(*SymStr).b, it.pos)
		i := it.pos
		it.pos += sz
		return Value{k: KTuple, p: []Value{mkBool(true), mkInt(64, uint64(i)), r}}
	}
	// map
	for len(it.rest) > 0 {
		k := 0
		if it.nd && len(it.rest) > 1 {
			k = w.choose(len(it.rest))
		}
		e := it.rest[k]
		it.rest = append(it.rest[:k:k], it.rest[k+1:]...)
		if e.deleted {
			continue
		}
		return Value{k: KTuple, p: []Value{mkBool(true), copyVal(e.key), copyVal(e.val)}}
	}
	return Value{k: KTuple, p: []Value{mkBool(false), {}, {}}}
}
