package main

// Per-worker state: path condition, decisions, solver, journal, statistics.

import (
	"os"
	"fmt"
	"go/types"
	"sort"
	"strings"
	"sync"
	"time"

	"golang.org/x/tools/go/ssa"
)

// pathAbort ends the current path (not a Go panic of the interpreted program).
type pathAbort struct {
	kind string // infeasible | exhausted | unsupported | budget | solver | internal | stop
	msg  string
}

// goPanic is a panic of the interpreted program.
type goPanic struct {
	v    Value // interface{} value
	site string
}

type decision struct {
	V      uint64 `json:"v"`
	Neg    bool   `json:"neg,omitempty"`
	Forced bool   `json:"f,omitempty"`
	K      byte   `json:"k"` // 'b' branch, 'c' concretize, 'h' choose
}

type undoRec struct {
	p   *Value
	old Value
	fn  func()
}

type nondetRec struct {
	Kind string `json:"kind"`
	t    *Term
	W    uint8  `json:"w"`
	C    uint64 `json:"c"` // concrete (choose) or model value
	N    int    `json:"n,omitempty"`
}

type violation struct {
	Harness string            `json:"harness"`
	Params  map[string]int    `json:"params"`
	Label   string            `json:"label"`
	Site    string            `json:"site"`
	Kind    string            `json:"kind"` // assert | panic
	Msg     string            `json:"msg,omitempty"`
	Nondet  []nondetRec       `json:"nondet"`
	Trail   []decision        `json:"trail"`
	Events  []string          `json:"events,omitempty"`
	Extra   map[string]string `json:"extra,omitempty"`
	MapOrd  bool              `json:"map_order_nondet,omitempty"`
}

type Stats struct {
	Paths        int
	PathsOK      int
	Exhausted    int
	Pruned       int // assume-pruned paths
	Inconclusive int
	Decisions    int
	Fresh        int
	Steps        int64
	Queries      int
	Sat, Unsat   int
	Unknown      int
	SolverDur    time.Duration
	AssertsSym   int
	AssertsConc  int
	SymFmt       int
	XChecked     int
	XDisagree    int
	Reach        map[string]int
	Assumes      map[string]int
	Funcs        map[*ssa.Function]struct{}
	Inconcl      map[string]int
	MaxPathSteps int64
}

type W struct {
	id   int
	prog *Program
	ts   *TermStore
	sol  *Solver

	pcAll   []*Term // every constraint of this path (for witness evaluation)
	pending []*Term
	prefix  []decision
	pos     int
	trail   []decision
	newJobs [][]decision

	journal    []undoRec
	journaling bool
	globals    map[*ssa.Global]*Value

	steps     int64
	maxSteps  int64
	callDepth int

	nondets      []nondetRec
	events       []string
	mapOrderND   bool
	replaced     map[string]Value
	violations   []violation
	stats        Stats
	harness      string
	params       map[string]int
	curSite      string
	methodCache  map[methodKey]*ssa.Function
	implCache    map[implKey]bool
	rtErrType    types.Type
	traceShared  bool
	lastModel    []uint64 // model of pcAll for vars (may be stale/nil)
	lastModelOK  bool
	hasherState  map[string]Value
	stepHook     func()
	pathStart    time.Time
	maxPathTime  time.Duration
	expectViol   bool
	violLabels   map[string]bool
	stopOnViol   bool
	funcsSeen    map[*ssa.Function]struct{}
	inconclusive string
	lastSample   *Sample
	top          *frame
	traceDeep    bool
	traceNames   map[string]int
	traced       map[any]string // shared cells (*Value) and maps (*MapObj) whose accesses are logged
	traceEvents  []string
	inMapSet     bool
}

type methodKey struct {
	t    types.Type
	name string
	pkg  *types.Package
}
type implKey struct{ t, i types.Type }

var globalMu sync.Mutex

func (w *W) abort(kind, format string, args ...any) {
	panic(pathAbort{kind: kind, msg: fmt.Sprintf(format, args...)})
}

func (w *W) unsupported(format string, args ...any) {
	panic(pathAbort{kind: "unsupported", msg: fmt.Sprintf(format, args...) + " @ " + w.curSite + " stack: " + w.stackString()})
}

// ---- journal -------------------------------------------------------------

func (w *W) store(p *Value, v Value) {
	if w.journaling {
		w.journal = append(w.journal, undoRec{p: p, old: *p})
	}
	*p = v
}

// assign stores v into *p with Go's value semantics: aggregates are copied
// element-wise into the existing storage so that pointers to fields/elements
// taken earlier stay valid.
func (w *W) assign(p *Value, v Value) {
	if (v.k == KStruct || v.k == KArray) && p.k == v.k && p.p != nil && v.p != nil {
		dst, src := p.p.([]Value), v.p.([]Value)
		if len(dst) == len(src) {
			if len(dst) > 0 && &dst[0] == &src[0] {
				return
			}
			for i := range src {
				w.assign(&dst[i], src[i])
			}
			return
		}
	}
	w.store(p, copyVal(v))
}

func (w *W) undoAll() {
	for i := len(w.journal) - 1; i >= 0; i-- {
		r := w.journal[i]
		if r.fn != nil {
			r.fn()
		} else {
			*r.p = r.old
		}
	}
	w.journal = w.journal[:0]
}

// ---- constraints ---------------------------------------------------------

func (w *W) addPC(c *Term) {
	if c.isConst() {
		if c.c == 0 {
			w.abort("infeasible", "constant false constraint")
		}
		return
	}
	w.pcAll = append(w.pcAll, c)
	w.pending = append(w.pending, c)
	w.lastModelOK = false
}

func (w *W) flush() {
	for _, c := range w.pending {
		w.sol.Assert(c)
	}
	w.pending = w.pending[:0]
}

func (w *W) check(extra *Term, want []*Term) (SatResult, []uint64) {
	w.flush()
	res, vals, err := w.sol.CheckWith(extra, want)
	if err != nil {
		if w.sol.dead {
			// restart the solver and re-assert the whole path condition lazily
			old := w.sol
			ns, nerr := NewSolver(old.kind, old.timeout)
			if nerr != nil {
				panic(nerr)
			}
			ns.nQuery, ns.nSat, ns.nUnsat, ns.nUnk, ns.dur, ns.nTimeout = old.nQuery, old.nSat, old.nUnsat, old.nUnk+1, old.dur, old.nTimeout
			old.Close()
			w.sol = ns
			w.pending = append(w.pending[:0], w.pcAll...)
			return Unknown, nil
		}
		w.abort("solver", "%v", err)
	}
	return res, vals
}

func (w *W) replaying() bool { return w.pos < len(w.prefix) }

func (w *W) pushDecision(d decision) {
	w.trail = append(w.trail, d)
	w.stats.Decisions++
}

var forkProfile = os.Getenv("GOSYM_FORKSITES") != ""
var forkMu sync.Mutex
var forkSites = map[string]int{}

func (w *W) queueAlt(d decision) {
	if forkProfile {
		st := w.stackString()
		if parts := strings.SplitN(st, " <- ", 5); len(parts) > 4 {
			st = strings.Join(parts[:4], " <- ")
		}
		forkMu.Lock()
		forkSites[string(d.K)+" "+st]++
		forkMu.Unlock()
	}
	alt := make([]decision, len(w.trail)+1)
	copy(alt, w.trail)
	alt[len(w.trail)] = d
	w.newJobs = append(w.newJobs, alt)
}

// decideBool forks on a symbolic condition.
func (w *W) decideBool(c *Term) bool {
	if c.isConst() {
		return c.c != 0
	}
	if w.replaying() {
		d := w.prefix[w.pos]
		w.pos++
		if d.K != 'b' {
			w.abort("internal", "replay mismatch: expected branch decision, have %c at %d (%s)", d.K, w.pos-1, w.curSite)
		}
		w.pushDecision(d)
		if d.V != 0 {
			if !d.Forced {
				w.addPC(c)
			}
			return true
		}
		if !d.Forced {
			w.addPC(w.ts.BNot(c))
		}
		return false
	}
	w.stats.Fresh++
	rT, _ := w.check(c, nil)
	if rT == Unsat {
		w.pushDecision(decision{V: 0, Forced: true, K: 'b'})
		return false
	}
	nc := w.ts.BNot(c)
	rF, _ := w.check(nc, nil)
	if rF == Unsat {
		if rT == Unknown {
			w.noteInconclusive("solver unknown on branch feasibility")
		}
		w.pushDecision(decision{V: 1, Forced: true, K: 'b'})
		return true
	}
	if rT == Unknown || rF == Unknown {
		w.noteInconclusive("solver unknown on branch feasibility")
	}
	// both feasible (or unknown): take true now, queue false
	w.queueAlt(decision{V: 0, K: 'b'})
	w.pushDecision(decision{V: 1, K: 'b'})
	w.addPC(c)
	return true
}

func (w *W) noteInconclusive(msg string) {
	if w.inconclusive == "" {
		w.inconclusive = msg
	}
}

const concretizeCap = 64

// concretize performs a complete case split on the value of t.
func (w *W) concretize(t *Term, what string) uint64 {
	if t.isConst() {
		return t.c
	}
	negs := 0
	for {
		if w.replaying() {
			d := w.prefix[w.pos]
			w.pos++
			if d.K != 'c' {
				w.abort("internal", "replay mismatch: expected concretize decision, have %c (%s)", d.K, w.curSite)
			}
			w.pushDecision(d)
			k := w.ts.Const(t.w, d.V)
			if d.Neg {
				negs++
				w.addPC(w.ts.BNot(w.ts.Cmp(OEq, t, k)))
				continue
			}
			if !d.Forced {
				w.addPC(w.ts.Cmp(OEq, t, k))
			}
			return d.V
		}
		w.stats.Fresh++
		if negs >= concretizeCap {
			w.noteInconclusive("concretize cap exceeded: " + what + " @ " + w.curSite)
			w.abort("budget", "concretize cap exceeded for %s", what)
		}
		probe := w.freshProbe(t)
		res, vals := w.check(nil, []*Term{probe})
		if res == Unsat {
			w.abort("exhausted", "no more values for %s", what)
		}
		if res == Unknown {
			w.noteInconclusive("solver unknown in concretize")
			w.abort("solver", "unknown in concretize")
		}
		v := vals[0]
		k := w.ts.Const(t.w, v)
		eq := w.ts.Cmp(OEq, t, k)
		// is any other value possible?
		r2, _ := w.check(w.ts.BNot(eq), nil)
		if r2 == Unknown {
			w.noteInconclusive("solver unknown in concretize")
		}
		if r2 != Unsat {
			w.queueAlt(decision{V: v, Neg: true, K: 'c'})
			w.pushDecision(decision{V: v, K: 'c'})
			w.addPC(eq)
		} else {
			w.pushDecision(decision{V: v, K: 'c', Forced: true})
		}
		return v
	}
}

// freshProbe returns a variable constrained equal to t so that get-value can be
// used uniformly on variables.
func (w *W) freshProbe(t *Term) *Term {
	if t.op == OVar {
		return t
	}
	p := w.ts.Var(t.w, fmt.Sprintf("p%d", len(w.ts.vars)))
	// probe definition is part of the pc (harmless: fresh variable)
	c := w.ts.mk(OEq, 0, 0, p, t)
	w.pcAll = append(w.pcAll, c)
	w.pending = append(w.pending, c)
	return p
}

// choose is a solver-free complete case split over 0..n-1.
func (w *W) choose(n int) int {
	if n <= 1 {
		return 0
	}
	if w.replaying() {
		d := w.prefix[w.pos]
		w.pos++
		if d.K != 'h' {
			w.abort("internal", "replay mismatch: expected choose decision, have %c (%s)", d.K, w.curSite)
		}
		w.pushDecision(d)
		return int(d.V)
	}
	for i := n - 1; i >= 1; i-- {
		w.queueAlt(decision{V: uint64(i), K: 'h'})
	}
	w.pushDecision(decision{V: 0, K: 'h'})
	return 0
}

// concreteInt returns a concrete value for an int Value, case-splitting if symbolic.
func (w *W) concreteInt(v Value, what string) uint64 {
	if v.p == nil {
		return v.c
	}
	return w.concretize(v.term(), what)
}

func (w *W) concreteBool(v Value) bool {
	if v.p == nil {
		return v.c != 0
	}
	return w.decideBool(v.term())
}

func (w *W) intTerm(v Value) *Term {
	if v.p != nil {
		return v.term()
	}
	return w.ts.Const(v.w, v.c)
}
func (w *W) boolTerm(v Value) *Term {
	if v.p != nil {
		return v.term()
	}
	return w.ts.Bool(v.c != 0)
}

func (w *W) newVar(width uint8, kind string) *Term {
	return w.ts.Var(width, fmt.Sprintf("v%d", len(w.ts.vars)))
}

// model returns values for all vars under the current pc plus extra.
func (w *W) modelWith(extra *Term) (SatResult, []uint64) {
	vars := w.ts.vars
	if len(vars) == 0 {
		res, _ := w.check(extra, nil)
		return res, nil
	}
	return w.check(extra, vars)
}

func (w *W) recordViolation(kind, label, msg string, model []uint64) {
	key := kind + ":" + label
	if w.violLabels == nil {
		w.violLabels = map[string]bool{}
	}
	nd := make([]nondetRec, len(w.nondets))
	memo := map[int]uint64{}
	for i, r := range w.nondets {
		nd[i] = r
		if r.t != nil {
			nd[i].C = r.t.Eval(model, memo)
		}
	}
	// sanity: the model must satisfy the pc according to our own evaluator
	for _, c := range w.pcAll {
		if c.Eval(model, memo) == 0 {
			w.noteInconclusive("model does not satisfy path condition under engine evaluator (term " + c.String() + ")")
		}
	}
	v := violation{Harness: w.harness, Params: w.params, Label: label, Site: w.curSite, Kind: kind, Msg: msg,
		Nondet: nd, Trail: append([]decision(nil), w.trail...), Events: append([]string(nil), w.events...), MapOrd: w.mapOrderND}
	w.violations = append(w.violations, v)
	w.violLabels[key] = true
}

func (s *Stats) merge(o *Stats) {
	s.Paths += o.Paths
	s.PathsOK += o.PathsOK
	s.Exhausted += o.Exhausted
	s.Pruned += o.Pruned
	s.Inconclusive += o.Inconclusive
	s.Decisions += o.Decisions
	s.Fresh += o.Fresh
	s.Steps += o.Steps
	s.AssertsSym += o.AssertsSym
	s.AssertsConc += o.AssertsConc
	s.SymFmt += o.SymFmt
	s.XChecked += o.XChecked
	s.XDisagree += o.XDisagree
	if o.MaxPathSteps > s.MaxPathSteps {
		s.MaxPathSteps = o.MaxPathSteps
	}
	for k, v := range o.Reach {
		if s.Reach == nil {
			s.Reach = map[string]int{}
		}
		s.Reach[k] += v
	}
	for k, v := range o.Assumes {
		if s.Assumes == nil {
			s.Assumes = map[string]int{}
		}
		s.Assumes[k] += v
	}
	for k, v := range o.Inconcl {
		if s.Inconcl == nil {
			s.Inconcl = map[string]int{}
		}
		s.Inconcl[k] += v
	}
	for k := range o.Funcs {
		if s.Funcs == nil {
			s.Funcs = map[*ssa.Function]struct{}{}
		}
		s.Funcs[k] = struct{}{}
	}
}

func sortedKeys[V any](m map[string]V) []string {
	ks := make([]string, 0, len(m))
	for k := range m {
		ks = append(ks, k)
	}
	sort.Strings(ks)
	return ks
}

func shortSite(s string) string {
	if i := strings.LastIndex(s, "/"); i >= 0 && strings.Count(s, "/") > 3 {
		return s[i+1:]
	}
	return s
}

// traceAccess logs an access to a traced shared cell. An access to a whole
// aggregate (struct copy through a value receiver, aggregate assignment) is an
// access to each of its traced leaf fields.
func (w *W) traceAccess(kind string, key any) {
	name, ok := w.traced[key]
	if !ok {
		return
	}
	if cell, isCell := key.(*Value); isCell && (kind == "R" || kind == "W") && (cell.k == KStruct || cell.k == KArray) {
		fs := cell.p.([]Value)
		n := 0
		for i := range fs {
			if _, sub := w.traced[&fs[i]]; sub {
				w.traceAccess(kind, &fs[i])
				n++
			}
		}
		if n > 0 {
			return
		}
	}
	w.traceEvents = append(w.traceEvents, kind+" "+name)
}

// traceRegister registers every cell reachable from v (a struct value's fields,
// recursively through nested structs; map objects as a whole) under name.
func (w *W) traceRegister(cell *Value, name string, depth int) {
	if w.traced == nil {
		w.traced = map[any]string{}
	}
	if depth > 6 {
		return
	}
	w.traced[cell] = name
	switch cell.k {
	case KStruct, KArray:
		fs := cell.p.([]Value)
		for i := range fs {
			w.traceRegister(&fs[i], fmt.Sprintf("%s.f%d", name, i), depth+1)
		}
	case KMap:
		if cell.p != nil {
			m := cell.p.(*MapObj)
			w.traced[m] = name
			for _, e := range m.entries {
				if !e.deleted && e.val.k == KPtr {
					if p := e.val.ptr(); p != nil {
						w.traceRegister(p, name+"["+shortKey(e.hkey)+"]", depth+1)
					}
				}
			}
		}
	}
}

// traceEscape (deep tracing): the value v has just been stored into the traced
// cell / map named base, so every object it refers to is now reachable by the
// other thread; those objects are registered under names unique to the object
// (so two different objects never share a cell name) and followed transitively.
func (w *W) traceEscape(v Value, base string, depth int) {
	if depth > 8 {
		return
	}
	switch v.k {
	case KPtr:
		p := v.ptr()
		if p == nil {
			return
		}
		if _, seen := w.traced[p]; seen {
			return
		}
		name := w.traceUnique(base + "*")
		w.traceRegister(p, name, 0)
		w.traceEscapeCell(p, name, depth+1)
	case KIface:
		if it := v.iface(); it != nil {
			w.traceEscape(it.v, base, depth)
		}
	case KMap:
		if v.p == nil {
			return
		}
		m := v.p.(*MapObj)
		if _, seen := w.traced[m]; seen {
			return
		}
		name := w.traceUnique(base + "{}")
		w.traced[m] = name
		for _, e := range m.entries {
			if !e.deleted {
				w.traceEscape(e.val, name+"["+shortKey(e.hkey)+"]", depth+1)
			}
		}
	case KSlice:
		if v.p == nil {
			return
		}
		s := v.p.([]Value)
		if len(s) == 0 || len(s) > 64 {
			return
		}
		if _, seen := w.traced[&s[0]]; seen {
			return
		}
		name := w.traceUnique(base + "[]")
		for i := range s {
			w.traceRegister(&s[i], fmt.Sprintf("%s[%d]", name, i), 0)
			w.traceEscapeCell(&s[i], name, depth+1)
		}
	case KStruct, KArray:
		for i, f := range v.p.([]Value) {
			w.traceEscape(f, fmt.Sprintf("%s.f%d", base, i), depth+1)
		}
	}
}

// traceEscapeCell follows the references held in an already registered cell.
func (w *W) traceEscapeCell(cell *Value, name string, depth int) {
	switch cell.k {
	case KStruct, KArray:
		fs := cell.p.([]Value)
		for i := range fs {
			w.traceEscapeCell(&fs[i], fmt.Sprintf("%s.f%d", name, i), depth)
		}
	case KPtr, KIface, KMap, KSlice:
		w.traceEscape(*cell, name, depth)
	}
}

func (w *W) traceUnique(name string) string {
	if w.traceNames == nil {
		w.traceNames = map[string]int{}
	}
	w.traceNames[name]++
	if n := w.traceNames[name]; n > 1 {
		return fmt.Sprintf("%s#%d", name, n)
	}
	return name
}

func shortKey(h string) string {
	var x uint32 = 2166136261
	for i := 0; i < len(h); i++ {
		x = (x ^ uint32(h[i])) * 16777619
	}
	return fmt.Sprintf("%08x", x)
}

func (w *W) stackString() string {
	var sb strings.Builder
	n := 0
	for fr := w.top; fr != nil && n < 12; fr = fr.caller {
		if n > 0 {
			sb.WriteString(" <- ")
		}
		sb.WriteString(fr.info.name)
		n++
	}
	return sb.String()
}
