package main

// Hash-consed bit-vector / bool terms with constant folding and an evaluator.
// Width 0 = Bool; widths 1..64 = bit-vectors. One TermStore per path.

import (
	"fmt"
	"math/bits"
	"strings"
)

type Op uint8

const (
	OConst Op = iota
	OVar
	OAdd
	OSub
	OMul
	OUDiv
	OSDiv
	OURem
	OSRem
	OAnd
	OOr
	OXor
	OShl
	OLShr
	OAShr
	ONot
	ONeg
	OConcat
	OExtract
	OZExt
	OSExt
	OIte
	// boolean-valued
	OEq
	OUlt
	OUle
	OSlt
	OSle
	OBAnd
	OBOr
	OBNot
)

var opNames = [...]string{"const", "var", "bvadd", "bvsub", "bvmul", "bvudiv", "bvsdiv", "bvurem", "bvsrem", "bvand", "bvor", "bvxor", "bvshl", "bvlshr", "bvashr", "bvnot", "bvneg", "concat", "extract", "zero_extend", "sign_extend", "ite", "=", "bvult", "bvule", "bvslt", "bvsle", "and", "or", "not"}

type Term struct {
	op   Op
	w    uint8 // 0 = bool
	a    [3]*Term
	n    uint8
	c    uint64 // const value / var id / extract hi<<8|lo
	id   int
	name string // vars
	ew   uint8  // effective width: bits above ew are known to be zero
	tz   uint8  // bits below tz are known to be zero
	pm   uint64 // possibly-set bits: every bit outside pm is known to be zero
}

type TermStore struct {
	tab   map[termKey]*Term
	next  int
	vars  []*Term
	tTrue *Term
	tFals *Term
}

type termKey struct {
	op         Op
	w          uint8
	c          uint64
	a0, a1, a2 int
}

func NewTermStore() *TermStore {
	ts := &TermStore{tab: map[termKey]*Term{}}
	ts.tTrue = ts.mk(OConst, 0, 1)
	ts.tFals = ts.mk(OConst, 0, 0)
	return ts
}

func (ts *TermStore) mk(op Op, w uint8, c uint64, args ...*Term) *Term {
	k := termKey{op: op, w: w, c: c, a0: -1, a1: -1, a2: -1}
	if len(args) > 0 {
		k.a0 = args[0].id
	}
	if len(args) > 1 {
		k.a1 = args[1].id
	}
	if len(args) > 2 {
		k.a2 = args[2].id
	}
	if t, ok := ts.tab[k]; ok {
		return t
	}
	t := &Term{op: op, w: w, c: c, id: ts.next, n: uint8(len(args))}
	copy(t.a[:], args)
	t.ew = effWidth(t)
	t.tz = lowZeros(t)
	if w > 0 {
		t.pm = possMask(t) & mask(w)
		// the three analyses refine one another
		if t.ew < 64 {
			t.pm &= mask(t.ew)
		}
		t.pm &^= mask(t.tz)
		if l := uint8(bits.Len64(t.pm)); l < t.ew {
			t.ew = l
		}
		if t.pm == 0 {
			t.tz = w
		} else if z := uint8(bits.TrailingZeros64(t.pm)); z > t.tz {
			t.tz = z
		}
	}
	ts.next++
	ts.tab[k] = t
	return t
}

// possMask over-approximates the set of bits that can be 1 in t's value.
func possMask(t *Term) uint64 {
	m := mask(t.w)
	below := func(x uint64) uint64 { // bits strictly below the lowest set bit of x
		if x == 0 {
			return m
		}
		return (x & -x) - 1
	}
	upto := func(x uint64) uint64 { return mask(uint8(bits.Len64(x))) } // all bits up to the highest set bit
	switch t.op {
	case OConst:
		return t.c
	case OZExt:
		return t.a[0].pm
	case OSExt:
		a := t.a[0]
		if a.pm>>(a.w-1)&1 == 1 {
			return a.pm | (m &^ mask(a.w))
		}
		return a.pm
	case OAnd:
		return t.a[0].pm & t.a[1].pm
	case OOr, OXor:
		return t.a[0].pm | t.a[1].pm
	case OAdd:
		a, b := t.a[0].pm, t.a[1].pm
		if a&b == 0 {
			return a | b
		}
		l := bits.Len64(a|b) + 1
		if l > 64 {
			l = 64
		}
		return mask(uint8(l)) &^ below(a|b)
	case OSub, ONeg:
		u := t.a[0].pm
		if t.op == OSub {
			u |= t.a[1].pm
		}
		return m &^ below(u)
	case OMul:
		a, b := t.a[0].pm, t.a[1].pm
		if a == 0 || b == 0 {
			return 0
		}
		l := bits.Len64(a) + bits.Len64(b)
		z := bits.TrailingZeros64(a) + bits.TrailingZeros64(b)
		if l > 64 {
			l = 64
		}
		if z > 64 {
			z = 64
		}
		return mask(uint8(l)) &^ mask(uint8(z))
	case OShl:
		if t.a[1].isConst() {
			if t.a[1].c >= 64 {
				return 0
			}
			return t.a[0].pm << t.a[1].c
		}
		return m &^ below(t.a[0].pm)
	case OLShr:
		if t.a[1].isConst() {
			if t.a[1].c >= 64 {
				return 0
			}
			return t.a[0].pm >> t.a[1].c
		}
		return upto(t.a[0].pm)
	case OAShr:
		a := t.a[0]
		if a.pm>>(a.w-1)&1 == 1 {
			return m
		}
		return upto(a.pm)
	case OExtract:
		hi, lo := uint8(t.c>>8), uint8(t.c)
		return (t.a[0].pm >> lo) & mask(hi-lo+1)
	case OConcat:
		return t.a[0].pm<<t.a[1].w | t.a[1].pm
	case OIte:
		return t.a[1].pm | t.a[2].pm
	case OUDiv:
		if t.a[1].isConst() && t.a[1].c != 0 {
			return upto(t.a[0].pm)
		}
		return m // division by zero yields all ones
	case OURem:
		return upto(t.a[0].pm) // x % y <= x (and x when y == 0)
	}
	return m
}

// lowZeros returns a number of low bits known to be zero.
func lowZeros(t *Term) uint8 {
	if t.w == 0 {
		return 0
	}
	mn := func(a, b uint8) uint8 {
		if a < b {
			return a
		}
		return b
	}
	var z uint8
	switch t.op {
	case OConst:
		if t.c == 0 {
			z = t.w
		} else {
			z = uint8(bits.TrailingZeros64(t.c))
		}
	case OShl:
		if t.a[1].isConst() && t.a[1].c < 64 {
			x := uint64(t.a[0].tz) + t.a[1].c
			if x > uint64(t.w) {
				x = uint64(t.w)
			}
			z = uint8(x)
		}
	case OZExt:
		z = mn(t.a[0].tz, t.a[0].w)
		if t.a[0].tz >= t.a[0].w {
			z = t.w
		}
	case OAnd:
		z = t.a[0].tz
		if t.a[1].tz > z {
			z = t.a[1].tz
		}
	case OOr, OXor, OAdd, OSub:
		z = mn(t.a[0].tz, t.a[1].tz)
	case OIte:
		z = mn(t.a[1].tz, t.a[2].tz)
	case OMul:
		x := uint16(t.a[0].tz) + uint16(t.a[1].tz)
		if x > uint16(t.w) {
			x = uint16(t.w)
		}
		z = uint8(x)
	case OConcat:
		z = t.a[1].tz
		if t.a[1].tz >= t.a[1].w {
			z = t.a[1].w + t.a[0].tz
		}
	}
	if z > t.w {
		z = t.w
	}
	return z
}

func effWidth(t *Term) uint8 {
	if t.w == 0 {
		return 0
	}
	mn := func(a, b uint8) uint8 {
		if a < b {
			return a
		}
		return b
	}
	mx := func(a, b uint8) uint8 {
		if a > b {
			return a
		}
		return b
	}
	var e uint8
	switch t.op {
	case OConst:
		e = uint8(bits.Len64(t.c))
	case OZExt:
		e = t.a[0].ew
	case OAdd:
		e = mx(t.a[0].ew, t.a[1].ew) + 1
	case OAnd:
		e = mn(t.a[0].ew, t.a[1].ew)
	case OOr, OXor:
		e = mx(t.a[0].ew, t.a[1].ew)
	case OIte:
		e = mx(t.a[1].ew, t.a[2].ew)
	case OLShr:
		e = t.a[0].ew
		if t.a[1].isConst() {
			if t.a[1].c >= uint64(e) {
				e = 0
			} else {
				e -= uint8(t.a[1].c)
			}
		}
	case OShl:
		if t.a[1].isConst() && t.a[1].c < 64 {
			x := uint64(t.a[0].ew) + t.a[1].c
			if x > uint64(t.w) {
				x = uint64(t.w)
			}
			e = uint8(x)
		} else {
			e = t.w
		}
	case OURem:
		e = t.a[0].ew
	case OUDiv:
		if t.a[1].isConst() && t.a[1].c != 0 {
			e = t.a[0].ew
		} else {
			e = t.w
		}
	case OMul:
		x := uint16(t.a[0].ew) + uint16(t.a[1].ew)
		if x > uint16(t.w) {
			x = uint16(t.w)
		}
		e = uint8(x)
	case OConcat:
		if t.a[0].ew == 0 {
			e = t.a[1].ew
		} else {
			e = t.a[1].w + t.a[0].ew
		}
	default:
		e = t.w
	}
	if e > t.w {
		e = t.w
	}
	return e
}

func mask(w uint8) uint64 {
	if w >= 64 {
		return ^uint64(0)
	}
	return (uint64(1) << w) - 1
}

func sext(c uint64, w uint8) int64 {
	if w >= 64 {
		return int64(c)
	}
	s := 64 - w
	return int64(c<<s) >> s
}

func (ts *TermStore) Const(w uint8, c uint64) *Term {
	if w == 0 {
		if c != 0 {
			return ts.tTrue
		}
		return ts.tFals
	}
	return ts.mk(OConst, w, c&mask(w))
}
func (ts *TermStore) Bool(b bool) *Term {
	if b {
		return ts.tTrue
	}
	return ts.tFals
}

func (ts *TermStore) Var(w uint8, name string) *Term {
	t := &Term{op: OVar, w: w, c: uint64(len(ts.vars)), id: ts.next, name: name, ew: w, pm: mask(w)}
	ts.next++
	ts.vars = append(ts.vars, t)
	return t
}

func (t *Term) isConst() bool { return t.op == OConst }

func evalBin(op Op, w uint8, a, b uint64) uint64 {
	m := mask(w)
	switch op {
	case OAdd:
		return (a + b) & m
	case OSub:
		return (a - b) & m
	case OMul:
		return (a * b) & m
	case OUDiv:
		if b == 0 {
			return m
		}
		return a / b
	case OURem:
		if b == 0 {
			return a
		}
		return a % b
	case OSDiv:
		sa, sb := sext(a, w), sext(b, w)
		if sb == 0 {
			if sa >= 0 {
				return m
			}
			return 1
		}
		if sb == -1 {
			return uint64(-sa) & m
		}
		return uint64(sa/sb) & m
	case OSRem:
		sa, sb := sext(a, w), sext(b, w)
		if sb == 0 {
			return a
		}
		if sb == -1 {
			return 0
		}
		return uint64(sa%sb) & m
	case OAnd:
		return a & b
	case OOr:
		return a | b
	case OXor:
		return a ^ b
	case OShl:
		if b >= uint64(w) {
			return 0
		}
		return (a << b) & m
	case OLShr:
		if b >= uint64(w) {
			return 0
		}
		return a >> b
	case OAShr:
		sa := sext(a, w)
		if b >= uint64(w) {
			if sa < 0 {
				return m
			}
			return 0
		}
		return uint64(sa>>b) & m
	}
	panic("evalBin")
}

func evalCmp(op Op, w uint8, a, b uint64) bool {
	switch op {
	case OEq:
		return a == b
	case OUlt:
		return a < b
	case OUle:
		return a <= b
	case OSlt:
		return sext(a, w) < sext(b, w)
	case OSle:
		return sext(a, w) <= sext(b, w)
	}
	panic("evalCmp")
}

// Bin builds a bit-vector binary operation (both operands width w).
func (ts *TermStore) Bin(op Op, a, b *Term) *Term {
	if a.w != b.w {
		panic(fmt.Sprintf("Bin width mismatch %s %d %d", opNames[op], a.w, b.w))
	}
	w := a.w
	if a.isConst() && b.isConst() {
		return ts.Const(w, evalBin(op, w, a.c, b.c))
	}
	// narrow additions of small zero-extended values (keeps adders short for the solver)
	if op == OAdd && w > 8 {
		e := a.ew
		if b.ew > e {
			e = b.ew
		}
		e++
		if e < 8 {
			e = 8
		}
		if e < w && !(a.isConst() && a.c == 0) && !(b.isConst() && b.c == 0) {
			return ts.ZExt(ts.Bin(OAdd, ts.Extract(a, e-1, 0), ts.Extract(b, e-1, 0)), w)
		}
	}
	// additions of terms whose possibly-set bits do not overlap are ORs (pure wiring
	// for the bit-blaster; typical of byte/varint assembly code)
	if op == OAdd && !a.isConst() && !b.isConst() && a.pm&b.pm == 0 {
		return ts.Bin(OOr, a, b)
	}
	switch op {
	case OAdd:
		if a.isConst() && a.c == 0 {
			return b
		}
		if b.isConst() && b.c == 0 {
			return a
		}
		if a.isConst() { // canonical: const on the right
			a, b = b, a
		}
		// (x + c1) + c2
		if b.isConst() && a.op == OAdd && a.a[1].isConst() {
			return ts.Bin(OAdd, a.a[0], ts.Const(w, a.a[1].c+b.c))
		}
		// (x | c1) + c2 where x cannot overlap c1: x + (c1 + c2)
		if b.isConst() && a.op == OOr && a.a[1].isConst() && a.a[0].pm&a.a[1].c == 0 {
			return ts.Bin(OAdd, a.a[0], ts.Const(w, a.a[1].c+b.c))
		}
		// x + c where x cannot overlap c: x | c
		if b.isConst() && a.pm&b.c == 0 {
			return ts.Bin(OOr, a, b)
		}
	case OSub:
		if b.isConst() && b.c == 0 {
			return a
		}
		if a == b {
			return ts.Const(w, 0)
		}
		if b.isConst() {
			return ts.Bin(OAdd, a, ts.Const(w, -b.c))
		}
	case OMul:
		if a.isConst() {
			a, b = b, a
		}
		if b.isConst() {
			if b.c == 0 {
				return b
			}
			if b.c == 1 {
				return a
			}
			if bits.OnesCount64(b.c) == 1 {
				return ts.Bin(OShl, a, ts.Const(w, uint64(bits.TrailingZeros64(b.c))))
			}
		}
	case OAnd:
		if a.isConst() {
			a, b = b, a
		}
		if b.isConst() {
			if b.c == 0 {
				return b
			}
			if b.c == mask(w) {
				return a
			}
			// all possibly-set bits of a are kept by the mask
			if a.pm&^b.c == 0 {
				return a
			}
			if a.pm&b.c == 0 {
				return ts.Const(w, 0)
			}
			// (x & c1) & c2
			if a.op == OAnd && a.a[1].isConst() {
				return ts.Bin(OAnd, a.a[0], ts.Const(w, a.a[1].c&b.c))
			}
			// (x | c1) & c2 with c1 & c2 == 0  ->  x & c2
			if a.op == OOr && a.a[1].isConst() && a.a[1].c&b.c == 0 {
				return ts.Bin(OAnd, a.a[0], b)
			}
		}
		if a == b {
			return a
		}
	case OOr:
		if a.isConst() {
			a, b = b, a
		}
		if b.isConst() {
			if b.c == 0 {
				return a
			}
			if b.c == mask(w) {
				return b
			}
			// (x | c1) | c2
			if a.op == OOr && a.a[1].isConst() {
				return ts.Bin(OOr, a.a[0], ts.Const(w, a.a[1].c|b.c))
			}
			// x | c: the bits of c are forced, drop them from x
			if a.op != OAnd || !a.a[1].isConst() || a.a[1].c&b.c != 0 {
				m := ts.Bin(OAnd, a, ts.Const(w, ^b.c))
				if m != a {
					return ts.Bin(OOr, m, b)
				}
			}
		} else {
			// keep constants outermost: (x | c) | y -> (x | y) | c
			if a.op == OOr && a.a[1].isConst() {
				return ts.Bin(OOr, ts.Bin(OOr, a.a[0], b), a.a[1])
			}
			if b.op == OOr && b.a[1].isConst() {
				return ts.Bin(OOr, ts.Bin(OOr, a, b.a[0]), b.a[1])
			}
		}
		if a == b {
			return a
		}
	case OXor:
		if a.isConst() {
			a, b = b, a
		}
		if b.isConst() && b.c == 0 {
			return a
		}
		if a == b {
			return ts.Const(w, 0)
		}
	case OShl, OLShr, OAShr:
		if b.isConst() {
			if b.c == 0 {
				return a
			}
			if b.c >= uint64(w) && op != OAShr {
				return ts.Const(w, 0)
			}
			// (x | c) << k  ->  (x << k) | (c << k)
			if op == OShl && a.op == OOr && a.a[1].isConst() {
				return ts.Bin(OOr, ts.Bin(OShl, a.a[0], b), ts.Const(w, a.a[1].c<<b.c))
			}
		}
		if a.isConst() && a.c == 0 {
			return a
		}
	case OUDiv:
		if b.isConst() && b.c == 1 {
			return a
		}
		if b.isConst() && b.c != 0 && bits.OnesCount64(b.c) == 1 {
			return ts.Bin(OLShr, a, ts.Const(w, uint64(bits.TrailingZeros64(b.c))))
		}
	case OURem:
		if b.isConst() && b.c != 0 && bits.OnesCount64(b.c) == 1 {
			return ts.Bin(OAnd, a, ts.Const(w, b.c-1))
		}
	}
	return ts.mk(op, w, 0, a, b)
}

func (ts *TermStore) Not(a *Term) *Term {
	if a.isConst() {
		return ts.Const(a.w, ^a.c)
	}
	if a.op == ONot {
		return a.a[0]
	}
	return ts.mk(ONot, a.w, 0, a)
}
func (ts *TermStore) Neg(a *Term) *Term {
	if a.isConst() {
		return ts.Const(a.w, -a.c)
	}
	return ts.mk(ONeg, a.w, 0, a)
}

func (ts *TermStore) Cmp(op Op, a, b *Term) *Term {
	if a.w != b.w {
		panic(fmt.Sprintf("Cmp width mismatch %s %d %d", opNames[op], a.w, b.w))
	}
	if a.w == 0 { // bool equality
		if op != OEq {
			panic("bool cmp")
		}
		if a.isConst() {
			if a.c != 0 {
				return b
			}
			return ts.BNot(b)
		}
		if b.isConst() {
			if b.c != 0 {
				return a
			}
			return ts.BNot(a)
		}
		if a == b {
			return ts.tTrue
		}
		return ts.mk(OEq, 0, 0, a, b)
	}
	if a.isConst() && b.isConst() {
		return ts.Bool(evalCmp(op, a.w, a.c, b.c))
	}
	if a == b {
		return ts.Bool(op == OEq || op == OUle || op == OSle)
	}
	if op == OEq {
		if a.isConst() {
			a, b = b, a
		}
		// zext(x) == c  => x == c (if c fits) else false
		if b.isConst() && a.op == OZExt {
			in := a.a[0]
			if b.c > mask(in.w) {
				return ts.tFals
			}
			return ts.Cmp(OEq, in, ts.Const(in.w, b.c))
		}
		// ite(c, k1, k2) == k  with constants
		if b.isConst() && a.op == OIte && a.a[1].isConst() && a.a[2].isConst() {
			t1 := a.a[1].c == b.c
			t2 := a.a[2].c == b.c
			switch {
			case t1 && t2:
				return ts.tTrue
			case t1:
				return a.a[0]
			case t2:
				return ts.BNot(a.a[0])
			default:
				return ts.tFals
			}
		}
		if a.id > b.id && !b.isConst() {
			a, b = b, a
		}
	}
	if op == OUlt && b.isConst() && b.c == 0 {
		return ts.tFals
	}
	if op == OUle && a.isConst() && a.c == 0 {
		return ts.tTrue
	}
	if (op == OUlt || op == OUle) && a.op == OZExt && b.isConst() {
		in := a.a[0]
		if b.c > mask(in.w) {
			return ts.tTrue
		}
	}
	return ts.mk(op, 0, 0, a, b)
}

func (ts *TermStore) BNot(a *Term) *Term {
	if a.isConst() {
		return ts.Bool(a.c == 0)
	}
	if a.op == OBNot {
		return a.a[0]
	}
	return ts.mk(OBNot, 0, 0, a)
}
func (ts *TermStore) BAnd(a, b *Term) *Term {
	if a.isConst() {
		if a.c != 0 {
			return b
		}
		return a
	}
	if b.isConst() {
		if b.c != 0 {
			return a
		}
		return b
	}
	if a == b {
		return a
	}
	return ts.mk(OBAnd, 0, 0, a, b)
}
func (ts *TermStore) BOr(a, b *Term) *Term {
	if a.isConst() {
		if a.c != 0 {
			return a
		}
		return b
	}
	if b.isConst() {
		if b.c != 0 {
			return b
		}
		return a
	}
	if a == b {
		return a
	}
	return ts.mk(OBOr, 0, 0, a, b)
}

func (ts *TermStore) Ite(c, a, b *Term) *Term {
	if c.isConst() {
		if c.c != 0 {
			return a
		}
		return b
	}
	if a == b {
		return a
	}
	if a.w == 0 {
		// bool ite
		if a.isConst() && b.isConst() {
			if a.c != 0 {
				return c
			}
			return ts.BNot(c)
		}
		return ts.BOr(ts.BAnd(c, a), ts.BAnd(ts.BNot(c), b))
	}
	return ts.mk(OIte, a.w, 0, c, a, b)
}

func (ts *TermStore) Extract(a *Term, hi, lo uint8) *Term {
	w := hi - lo + 1
	if lo == 0 && w == a.w {
		return a
	}
	if a.isConst() {
		return ts.Const(w, a.c>>lo)
	}
	switch a.op {
	case OZExt:
		in := a.a[0]
		if hi < in.w {
			return ts.Extract(in, hi, lo)
		}
		if lo >= in.w {
			return ts.Const(w, 0)
		}
		if lo == 0 {
			return ts.ZExt(in, w)
		}
	case OSExt:
		in := a.a[0]
		if hi < in.w {
			return ts.Extract(in, hi, lo)
		}
	case OConcat:
		lw := a.a[1].w
		if hi < lw {
			return ts.Extract(a.a[1], hi, lo)
		}
		if lo >= lw {
			return ts.Extract(a.a[0], hi-lw, lo-lw)
		}
	case OExtract:
		ilo := uint8(a.c & 0xff)
		return ts.Extract(a.a[0], hi+ilo, lo+ilo)
	case OIte:
		if lo == 0 && (a.a[1].isConst() || a.a[2].isConst() || a.a[1].op == OZExt || a.a[2].op == OZExt) {
			return ts.Ite(a.a[0], ts.Extract(a.a[1], hi, lo), ts.Extract(a.a[2], hi, lo))
		}
	case OAdd, OAnd, OOr, OXor:
		if lo == 0 && a.ew <= w {
			// low bits of these operators depend only on low bits of the operands
			return ts.Bin(a.op, ts.Extract(a.a[0], hi, 0), ts.Extract(a.a[1], hi, 0))
		}
	}
	if lo >= a.ew {
		return ts.Const(w, 0)
	}
	return ts.mk(OExtract, w, uint64(hi)<<8|uint64(lo), a)
}

func (ts *TermStore) ZExt(a *Term, w uint8) *Term {
	if w == a.w {
		return a
	}
	if w < a.w {
		return ts.Extract(a, w-1, 0)
	}
	if a.isConst() {
		return ts.Const(w, a.c)
	}
	if a.op == OZExt {
		return ts.ZExt(a.a[0], w)
	}
	if a.op == OOr && a.a[1].isConst() {
		return ts.Bin(OOr, ts.ZExt(a.a[0], w), ts.Const(w, a.a[1].c))
	}
	return ts.mk(OZExt, w, 0, a)
}
func (ts *TermStore) SExt(a *Term, w uint8) *Term {
	if w == a.w {
		return a
	}
	if w < a.w {
		return ts.Extract(a, w-1, 0)
	}
	if a.isConst() {
		return ts.Const(w, uint64(sext(a.c, a.w)))
	}
	if a.op == OZExt { // zero-extended value is non-negative
		return ts.ZExt(a.a[0], w)
	}
	return ts.mk(OSExt, w, 0, a)
}
func (ts *TermStore) Concat(hi, lo *Term) *Term {
	w := hi.w + lo.w
	if hi.isConst() && lo.isConst() {
		return ts.Const(w, hi.c<<lo.w|lo.c)
	}
	if hi.isConst() && hi.c == 0 {
		return ts.ZExt(lo, w)
	}
	return ts.mk(OConcat, w, 0, hi, lo)
}

// Eval evaluates t under a model (values of vars by var index).
func (t *Term) Eval(model []uint64, memo map[int]uint64) uint64 {
	if t.op == OConst {
		return t.c
	}
	if v, ok := memo[t.id]; ok {
		return v
	}
	var r uint64
	b2u := func(b bool) uint64 {
		if b {
			return 1
		}
		return 0
	}
	switch t.op {
	case OVar:
		if int(t.c) < len(model) {
			r = model[t.c] & mask(t.w)
			if t.w == 0 {
				r = model[t.c] & 1
			}
		}
	case OAdd, OSub, OMul, OUDiv, OSDiv, OURem, OSRem, OAnd, OOr, OXor, OShl, OLShr, OAShr:
		r = evalBin(t.op, t.w, t.a[0].Eval(model, memo), t.a[1].Eval(model, memo))
	case ONot:
		r = ^t.a[0].Eval(model, memo) & mask(t.w)
	case ONeg:
		r = -t.a[0].Eval(model, memo) & mask(t.w)
	case OConcat:
		r = t.a[0].Eval(model, memo)<<t.a[1].w | t.a[1].Eval(model, memo)
	case OExtract:
		lo := uint8(t.c & 0xff)
		r = (t.a[0].Eval(model, memo) >> lo) & mask(t.w)
	case OZExt:
		r = t.a[0].Eval(model, memo)
	case OSExt:
		r = uint64(sext(t.a[0].Eval(model, memo), t.a[0].w)) & mask(t.w)
	case OIte:
		if t.a[0].Eval(model, memo) != 0 {
			r = t.a[1].Eval(model, memo)
		} else {
			r = t.a[2].Eval(model, memo)
		}
	case OEq:
		r = b2u(t.a[0].Eval(model, memo) == t.a[1].Eval(model, memo))
	case OUlt, OUle, OSlt, OSle:
		r = b2u(evalCmp(t.op, t.a[0].w, t.a[0].Eval(model, memo), t.a[1].Eval(model, memo)))
	case OBAnd:
		r = b2u(t.a[0].Eval(model, memo) != 0 && t.a[1].Eval(model, memo) != 0)
	case OBOr:
		r = b2u(t.a[0].Eval(model, memo) != 0 || t.a[1].Eval(model, memo) != 0)
	case OBNot:
		r = b2u(t.a[0].Eval(model, memo) == 0)
	default:
		panic("eval op")
	}
	memo[t.id] = r
	return r
}

// ---- SMT-LIB printing -------------------------------------------------------

func sortOf(w uint8) string {
	if w == 0 {
		return "Bool"
	}
	return fmt.Sprintf("(_ BitVec %d)", w)
}

func constLit(w uint8, c uint64) string {
	if w == 0 {
		if c != 0 {
			return "true"
		}
		return "false"
	}
	if w%4 == 0 {
		return fmt.Sprintf("#x%0*x", int(w/4), c)
	}
	return fmt.Sprintf("#b%0*b", int(w), c)
}

// smtRef returns the name by which t is referred to; emits definitions for
// all not-yet-defined subterms into sb.
func (t *Term) smtRef(defined map[int]bool, sb *strings.Builder) string {
	switch t.op {
	case OConst:
		return constLit(t.w, t.c)
	case OVar:
		if !defined[t.id] {
			defined[t.id] = true
			fmt.Fprintf(sb, "(declare-const %s %s)\n", t.name, sortOf(t.w))
		}
		return t.name
	}
	name := fmt.Sprintf("t%d", t.id)
	if defined[t.id] {
		return name
	}
	// iterative post-order to avoid deep recursion on long chains
	type fr struct {
		t *Term
		i int
	}
	stack := []fr{{t, 0}}
	for len(stack) > 0 {
		f := &stack[len(stack)-1]
		if f.i < int(f.t.n) {
			ch := f.t.a[f.i]
			f.i++
			if ch.op == OConst || defined[ch.id] {
				continue
			}
			if ch.op == OVar {
				ch.smtRef(defined, sb)
				continue
			}
			stack = append(stack, fr{ch, 0})
			continue
		}
		x := f.t
		stack = stack[:len(stack)-1]
		if defined[x.id] {
			continue
		}
		defined[x.id] = true
		fmt.Fprintf(sb, "(define-fun t%d () %s ", x.id, sortOf(x.w))
		ref := func(c *Term) string {
			switch c.op {
			case OConst:
				return constLit(c.w, c.c)
			case OVar:
				return c.name
			}
			return fmt.Sprintf("t%d", c.id)
		}
		switch x.op {
		case OExtract:
			fmt.Fprintf(sb, "((_ extract %d %d) %s)", x.c>>8, x.c&0xff, ref(x.a[0]))
		case OZExt:
			fmt.Fprintf(sb, "((_ zero_extend %d) %s)", x.w-x.a[0].w, ref(x.a[0]))
		case OSExt:
			fmt.Fprintf(sb, "((_ sign_extend %d) %s)", x.w-x.a[0].w, ref(x.a[0]))
		default:
			sb.WriteString("(")
			sb.WriteString(opNames[x.op])
			for i := 0; i < int(x.n); i++ {
				sb.WriteString(" ")
				sb.WriteString(ref(x.a[i]))
			}
			sb.WriteString(")")
		}
		sb.WriteString(")\n")
	}
	return name
}

func (t *Term) String() string {
	switch t.op {
	case OConst:
		return constLit(t.w, t.c)
	case OVar:
		return t.name
	}
	var sb strings.Builder
	sb.WriteString("(")
	sb.WriteString(opNames[t.op])
	if t.op == OExtract {
		fmt.Fprintf(&sb, "[%d:%d]", t.c>>8, t.c&0xff)
	}
	for i := 0; i < int(t.n); i++ {
		sb.WriteString(" ")
		if t.a[i].n > 0 && depthOf(t.a[i]) > 3 {
			fmt.Fprintf(&sb, "t%d", t.a[i].id)
		} else {
			sb.WriteString(t.a[i].String())
		}
	}
	sb.WriteString(")")
	return sb.String()
}

func depthOf(t *Term) int {
	d := 0
	for i := 0; i < int(t.n); i++ {
		if x := depthOf(t.a[i]); x > d {
			d = x
		}
		if d > 4 {
			return d
		}
	}
	return d + 1
}
