package main

// gosym: bounded symbolic execution of Go SSA with an SMT solver.
//
//   gosym run -spec spec.json -out result.json
//
// spec.json: {"repo":"/repo","overlay":{"/repo/x/zz.go":"/verif/harness/x/zz.go",...},
//             "patterns":["./hamt"],"workers":16,"solver":"z3",
//             "programs":[{"pkg":"github.com/.../hamt","harness":"VerifX","params":{"k":1},"max_steps":1000000}]}

import (
	"encoding/json"
	"flag"
	"fmt"
	"os"
	"runtime"
	"sort"
	"strings"
	"sync"
	"time"

	"golang.org/x/tools/go/packages"
	"golang.org/x/tools/go/ssa"
	"golang.org/x/tools/go/ssa/ssautil"
)

type ProgramSpec struct {
	Pkg        string         `json:"pkg"`
	Harness    string         `json:"harness"`
	Params     map[string]int `json:"params"`
	MaxSteps   int64          `json:"max_steps"`
	MaxPaths   int            `json:"max_paths"`
	ExpectViol bool           `json:"expect_violation"`
	Prefix     []decision     `json:"prefix"` // explore only below this decision prefix (replay of a witness)
	Single     bool           `json:"single"` // run exactly the prefix path
}

type Spec struct {
	Repo      string            `json:"repo"`
	Overlay   map[string]string `json:"overlay"`
	Patterns  []string          `json:"patterns"`
	Workers   int               `json:"workers"`
	Solver    string            `json:"solver"`
	TimeoutMs int               `json:"solver_timeout_ms"`
	Programs  []ProgramSpec     `json:"programs"`
	Samples   int               `json:"samples"`
	Verbose   bool              `json:"verbose"`
	SolverLog string            `json:"solver_log"`
}

type Sample struct {
	Nondet []nondetRec `json:"nondet"`
	Trail  []decision  `json:"trail"`
	Events []string    `json:"events,omitempty"`
	Steps  int64       `json:"steps"`
	Status string      `json:"status"`
}

type ProgramResult struct {
	Pkg          string         `json:"pkg"`
	Harness      string         `json:"harness"`
	Params       map[string]int `json:"params"`
	Status       string         `json:"status"` // ok | violation | inconclusive | error
	Paths        int            `json:"paths"`
	PathsOK      int            `json:"paths_completed"`
	Exhausted    int            `json:"paths_exhausted"`
	Pruned       int            `json:"paths_pruned_by_assume"`
	Decisions    int            `json:"decisions"`
	Fresh        int            `json:"fresh_decisions"`
	Steps        int64          `json:"ssa_steps"`
	MaxPathSteps int64          `json:"max_path_steps"`
	Queries      int            `json:"solver_queries"`
	Sat          int            `json:"sat"`
	Unsat        int            `json:"unsat"`
	Unknown      int            `json:"unknown"`
	SolverS      float64        `json:"solver_s"`
	WallS        float64        `json:"wall_s"`
	AssertsSym   int            `json:"assert_queries"`
	AssertsConc  int            `json:"asserts_concrete"`
	SymFmt       int            `json:"fmt_placeholders"`
	XChecked     int            `json:"cross_checked_queries"`
	XDisagree    int            `json:"cross_check_disagreements"`
	Reach        map[string]int `json:"reach"`
	Assumes      map[string]int `json:"assume_pruned"`
	Inconclusive map[string]int `json:"inconclusive,omitempty"`
	Violations   []violation    `json:"violations,omitempty"`
	Samples      []Sample       `json:"samples,omitempty"`
	FuncsRepo    []string       `json:"functions_repo"`
	FuncsDep     int            `json:"functions_dependency"`
	FuncsIntr    []string       `json:"functions_intrinsic"`
	FuncsHarness []string       `json:"functions_harness"`
	Error        string         `json:"error,omitempty"`
}

func main() {
	if len(os.Args) < 2 {
		fmt.Fprintln(os.Stderr, "usage: gosym run -spec spec.json -out result.json")
		os.Exit(2)
	}
	switch os.Args[1] {
	case "run":
		fs := flag.NewFlagSet("run", flag.ExitOnError)
		specPath := fs.String("spec", "", "spec file")
		outPath := fs.String("out", "", "result file")
		fs.Parse(os.Args[2:])
		os.Exit(runSpec(*specPath, *outPath))
	default:
		fmt.Fprintln(os.Stderr, "unknown command")
		os.Exit(2)
	}
}

func runSpec(specPath, outPath string) int {
	data, err := os.ReadFile(specPath)
	if err != nil {
		fmt.Fprintln(os.Stderr, err)
		return 2
	}
	var spec Spec
	if err := json.Unmarshal(data, &spec); err != nil {
		fmt.Fprintln(os.Stderr, err)
		return 2
	}
	if spec.Workers <= 0 {
		spec.Workers = runtime.NumCPU()
	}
	if spec.Solver == "" {
		spec.Solver = "z3"
	}
	if spec.TimeoutMs == 0 {
		spec.TimeoutMs = 60000
	}
	if spec.Samples == 0 {
		spec.Samples = 3
	}
	t0 := time.Now()
	prog, err := loadProgram(&spec)
	if err != nil {
		fmt.Fprintln(os.Stderr, "load:", err)
		return 2
	}
	fmt.Fprintf(os.Stderr, "[gosym] loaded+built SSA in %.1fs\n", time.Since(t0).Seconds())

	pool, err := newPool(prog, &spec)
	if err != nil {
		fmt.Fprintln(os.Stderr, "init:", err)
		return 2
	}
	defer pool.close()
	fmt.Fprintf(os.Stderr, "[gosym] %d workers initialised at %.1fs\n", len(pool.workers), time.Since(t0).Seconds())

	var results []ProgramResult
	code := 0
	for _, ps := range spec.Programs {
		r := pool.runProgram(ps)
		results = append(results, r)
		fmt.Fprintf(os.Stderr, "[gosym] %s %v: %s paths=%d ok=%d decisions=%d queries=%d solver=%.1fs wall=%.1fs viol=%d\n",
			ps.Harness, ps.Params, r.Status, r.Paths, r.PathsOK, r.Decisions, r.Queries, r.SolverS, r.WallS, len(r.Violations))
		if r.Error != "" {
			fmt.Fprintf(os.Stderr, "[gosym]   error: %s\n", r.Error)
		}
		for k, v := range r.Inconclusive {
			fmt.Fprintf(os.Stderr, "[gosym]   inconclusive: %s ×%d\n", k, v)
		}
		switch r.Status {
		case "violation":
			if code == 0 {
				code = 1
			}
		case "inconclusive", "error":
			code = 2
		}
	}
	out, _ := json.MarshalIndent(results, "", " ")
	if outPath != "" {
		os.WriteFile(outPath, out, 0o644)
	} else {
		os.Stdout.Write(out)
	}
	return code
}

func loadProgram(spec *Spec) (*Program, error) {
	overlay := map[string][]byte{}
	for virt, realp := range spec.Overlay {
		b, err := os.ReadFile(realp)
		if err != nil {
			return nil, err
		}
		overlay[virt] = b
	}
	cfg := &packages.Config{
		Mode: packages.NeedName | packages.NeedFiles | packages.NeedCompiledGoFiles | packages.NeedImports | packages.NeedDeps |
			packages.NeedTypes | packages.NeedSyntax | packages.NeedTypesInfo | packages.NeedTypesSizes | packages.NeedModule,
		Dir:     spec.Repo,
		Overlay: overlay,
		Env:     append(os.Environ(), "GOFLAGS=-mod=mod", "GOPROXY=off", "GOSUMDB=off", "GOTOOLCHAIN=local", "CGO_ENABLED=0"),
	}
	pkgs, err := packages.Load(cfg, spec.Patterns...)
	if err != nil {
		return nil, err
	}
	nerr := 0
	packages.Visit(pkgs, nil, func(p *packages.Package) {
		for _, e := range p.Errors {
			// body-less declarations of the verifrt package are intended
			if strings.Contains(e.Msg, "missing function body") {
				continue
			}
			fmt.Fprintf(os.Stderr, "[gosym] package error: %v\n", e)
			nerr++
		}
	})
	if nerr > 0 {
		return nil, fmt.Errorf("%d package errors", nerr)
	}
	sprog, _ := ssautil.AllPackages(pkgs, ssa.InstantiateGenerics)
	sprog.Build()
	p := &Program{prog: sprog, pkgs: map[string]*ssa.Package{}, fset: sprog.Fset, denyInit: map[string]bool{}}
	for _, sp := range sprog.AllPackages() {
		p.pkgs[sp.Pkg.Path()] = sp
	}
	for _, d := range []string{"runtime", "reflect", "os", "syscall", "net", "go.uber.org/zap", "go.uber.org/zap/zapcore", "github.com/ipfs/go-log/v2",
		"crypto/sha256", "crypto/sha512", "crypto/sha1", "crypto/md5", "crypto", "time", "internal/poll", "internal/cpu", "internal/bytealg",
		"internal/godebug", "internal/reflectlite", "sync", "sync/atomic", "internal/race", "os/signal", "log", "internal/testlog",
		"github.com/minio/sha256-simd", "github.com/klauspost/cpuid/v2", "golang.org/x/sys/cpu", "lukechampine.com/blake3", "golang.org/x/crypto/sha3",
		"golang.org/x/crypto/blake2b", "golang.org/x/crypto/blake2s", "crypto/rand", "math/rand", "math/rand/v2", "runtime/debug", "runtime/pprof", "runtime/trace",
		"internal/syscall/unix", "internal/syscall/execenv", "path/filepath", "io/ioutil", "os/exec", "os/user", "testing", "flag", "net/http", "encoding/gob",
		"go.opentelemetry.io/otel", "hash/crc32", "internal/sysinfo", "internal/abi", "internal/chacha8rand", "crypto/internal/boring", "crypto/internal/randutil",
		"mime", "net/url", "compress/flate", "compress/gzip", "text/template", "html/template", "regexp", "regexp/syntax", "vendor/golang.org/x/net/http2/hpack",
		"github.com/mattn/go-isatty", "github.com/davecgh/go-spew/spew", "github.com/stretchr/testify/assert", "github.com/stretchr/testify/assert/yaml", "github.com/stretchr/testify/require", "gopkg.in/yaml.v3", "github.com/pmezard/go-difflib/difflib", "net/http/httptest", "text/tabwriter", "github.com/ipld/go-ipld-prime/schema/dmt", "github.com/ipld/go-ipld-prime/schema/dsl", "github.com/ipld/go-ipld-prime/node/bindnode", "google.golang.org/protobuf/internal/detrand", "encoding/json", "github.com/multiformats/go-multihash/register/blake2", "github.com/multiformats/go-multihash/register/blake3",
		"github.com/multiformats/go-multihash/register/sha3", "github.com/multiformats/go-multihash/register/murmur3", "github.com/multiformats/go-multihash/register/miniosha256",
		"github.com/multiformats/go-multihash/register/sha256", "github.com/multiformats/go-multihash/register/all"} {
		p.denyInit[d] = true
	}
	return p, nil
}

// ---- worker pool ------------------------------------------------------------------

type pool struct {
	prog    *Program
	spec    *Spec
	workers []*W
}

func newPool(prog *Program, spec *Spec) (*pool, error) {
	pl := &pool{prog: prog, spec: spec}
	// distinct harness packages
	pkgset := map[string]bool{}
	for _, ps := range spec.Programs {
		pkgset[ps.Pkg] = true
	}
	var pkgs []string
	for k := range pkgset {
		pkgs = append(pkgs, k)
	}
	sort.Strings(pkgs)
	var wg sync.WaitGroup
	errs := make([]error, spec.Workers)
	pl.workers = make([]*W, spec.Workers)
	for i := 0; i < spec.Workers; i++ {
		wg.Add(1)
		go func(i int) {
			defer wg.Done()
			sol, err := NewSolver(spec.Solver, spec.TimeoutMs)
			if err != nil {
				errs[i] = err
				return
			}
			if spec.SolverLog != "" && i == 0 {
				f, _ := os.Create(spec.SolverLog)
				sol.log = f
			}
			w := &W{id: i, prog: prog, sol: sol, globals: map[*ssa.Global]*Value{}, methodCache: map[methodKey]*ssa.Function{},
				implCache: map[implKey]bool{}, maxSteps: 1 << 40, ts: NewTermStore()}
			pl.workers[i] = w
			errs[i] = w.runInits(pkgs)
			w.journaling = true
		}(i)
	}
	wg.Wait()
	for _, e := range errs {
		if e != nil {
			return nil, e
		}
	}
	return pl, nil
}

func (pl *pool) close() {
	for _, w := range pl.workers {
		if w != nil && w.sol != nil {
			w.sol.Close()
		}
	}
}

func (w *W) runInits(pkgs []string) (err error) {
	defer func() {
		if r := recover(); r != nil {
			switch x := r.(type) {
			case pathAbort:
				err = fmt.Errorf("package init: %s: %s", x.kind, x.msg)
			case goPanic:
				err = fmt.Errorf("package init panicked: %s at %s", describe(x.v), x.site)
			default:
				panic(r)
			}
		}
	}()
	for _, path := range pkgs {
		sp := w.prog.pkgs[path]
		if sp == nil {
			return fmt.Errorf("package %s not loaded", path)
		}
		w.call(nil, sp.Func("init"), nil, nil)
	}
	return nil
}

type jobQueue struct {
	mu      sync.Mutex
	cond    *sync.Cond
	stack   [][]decision
	active  int
	stopped bool
	paths   int
	maxPath int
}

func (q *jobQueue) pop() ([]decision, bool) {
	q.mu.Lock()
	defer q.mu.Unlock()
	for {
		if q.stopped {
			return nil, false
		}
		if n := len(q.stack); n > 0 {
			j := q.stack[n-1]
			q.stack = q.stack[:n-1]
			q.active++
			q.paths++
			if q.maxPath > 0 && q.paths > q.maxPath {
				q.stopped = true
				q.cond.Broadcast()
				return nil, false
			}
			return j, true
		}
		if q.active == 0 {
			q.cond.Broadcast()
			return nil, false
		}
		q.cond.Wait()
	}
}

func (q *jobQueue) done(newJobs [][]decision) {
	q.mu.Lock()
	q.stack = append(q.stack, newJobs...)
	q.active--
	q.cond.Broadcast()
	q.mu.Unlock()
}

func (pl *pool) runProgram(ps ProgramSpec) ProgramResult {
	t0 := time.Now()
	res := ProgramResult{Pkg: ps.Pkg, Harness: ps.Harness, Params: ps.Params}
	sp := pl.prog.pkgs[ps.Pkg]
	if sp == nil {
		res.Status, res.Error = "error", "package not loaded: "+ps.Pkg
		return res
	}
	fn := sp.Func(ps.Harness)
	if fn == nil {
		res.Status, res.Error = "error", "harness not found: "+ps.Harness
		return res
	}
	q := &jobQueue{maxPath: ps.MaxPaths}
	q.cond = sync.NewCond(&q.mu)
	start := ps.Prefix
	if start == nil {
		start = []decision{}
	}
	q.stack = append(q.stack, start)
	maxSteps := ps.MaxSteps
	if maxSteps == 0 {
		maxSteps = 50_000_000
	}
	var wg sync.WaitGroup
	var mu sync.Mutex
	stopProgress := make(chan struct{})
	go func() {
		tk := time.NewTicker(15 * time.Second)
		defer tk.Stop()
		for {
			select {
			case <-stopProgress:
				return
			case <-tk.C:
				q.mu.Lock()
				fmt.Fprintf(os.Stderr, "[gosym]   ... %s: %d paths started, %d queued, %d active, %.0fs\n", ps.Harness, q.paths, len(q.stack), q.active, time.Since(t0).Seconds())
				if forkProfile {
					printForkSites(8, false)
				}
				q.mu.Unlock()
			}
		}
	}()
	var total Stats
	var viols []violation
	var samples []Sample
	var firstErr string
	seenViol := map[string]bool{}
	for _, w := range pl.workers {
		wg.Add(1)
		go func(w *W) {
			defer wg.Done()
			w.stats = Stats{}
			w.funcsSeen = map[*ssa.Function]struct{}{}
			q0, s0, u0, k0, d0 := w.sol.nQuery, w.sol.nSat, w.sol.nUnsat, w.sol.nUnk, w.sol.dur
			w.harness = ps.Harness
			w.params = ps.Params
			w.maxSteps = maxSteps
			nSamples := 0
			for {
				job, ok := q.pop()
				if !ok {
					break
				}
				status, msg := w.runPath(job, fn, nSamples < pl.spec.Samples)
				var nj [][]decision
				if !ps.Single {
					nj = w.newJobs
				}
				w.newJobs = nil
				mu.Lock()
				for _, v := range w.violations {
					key := v.Kind + ":" + v.Label
					if !seenViol[key] || len(viols) < 20 {
						viols = append(viols, v)
					}
					seenViol[key] = true
				}
				if w.lastSample != nil {
					if len(samples) < 8 {
						samples = append(samples, *w.lastSample)
					}
					nSamples++
					w.lastSample = nil
				}
				if status == "internal" || status == "unsupported" || status == "error" {
					if firstErr == "" {
						firstErr = status + ": " + msg
					}
				}
				mu.Unlock()
				w.violations = nil
				q.done(nj)
			}
			w.stats.Funcs = w.funcsSeen
			w.stats.Queries = w.sol.nQuery - q0
			w.stats.Sat = w.sol.nSat - s0
			w.stats.Unsat = w.sol.nUnsat - u0
			w.stats.Unknown = w.sol.nUnk - k0
			w.stats.SolverDur = w.sol.dur - d0
			mu.Lock()
			total.merge(&w.stats)
			total.Queries += w.stats.Queries
			total.Sat += w.stats.Sat
			total.Unsat += w.stats.Unsat
			total.Unknown += w.stats.Unknown
			total.SolverDur += w.stats.SolverDur
			mu.Unlock()
		}(w)
	}
	wg.Wait()
	close(stopProgress)
	res.Paths = total.Paths
	res.PathsOK = total.PathsOK
	res.Exhausted = total.Exhausted
	res.Pruned = total.Pruned
	res.Decisions = total.Decisions
	res.Fresh = total.Fresh
	if forkProfile {
		printForkSites(25, true)
	}
	res.Steps = total.Steps
	res.MaxPathSteps = total.MaxPathSteps
	res.Queries = total.Queries
	res.Sat, res.Unsat, res.Unknown = total.Sat, total.Unsat, total.Unknown
	res.SolverS = total.SolverDur.Seconds()
	res.AssertsSym, res.AssertsConc = total.AssertsSym, total.AssertsConc
	res.SymFmt = total.SymFmt
	res.XChecked = total.XChecked
	res.XDisagree = total.XDisagree
	res.Reach = total.Reach
	res.Assumes = total.Assumes
	res.Inconclusive = total.Inconcl
	res.Violations = viols
	res.Samples = samples
	for f := range total.Funcs {
		name := fnName(f)
		info := pl.prog.info(f)
		switch {
		case info.intrinsic != nil:
			res.FuncsIntr = append(res.FuncsIntr, name)
		case strings.Contains(name, "zz_verif") || strings.Contains(name, "internal/verif") || strings.Contains(name, ".Verif"):
			res.FuncsHarness = append(res.FuncsHarness, name)
		case strings.Contains(name, "github.com/ipfs/go-unixfsnode"):
			// harness functions live in zz_verif files
			if f.Pos().IsValid() && strings.Contains(pl.prog.fset.Position(f.Pos()).Filename, "zz_verif") {
				res.FuncsHarness = append(res.FuncsHarness, name)
			} else {
				res.FuncsRepo = append(res.FuncsRepo, name)
			}
		default:
			res.FuncsDep++
		}
	}
	sort.Strings(res.FuncsRepo)
	sort.Strings(res.FuncsIntr)
	sort.Strings(res.FuncsHarness)
	res.WallS = time.Since(t0).Seconds()
	switch {
	case firstErr != "":
		res.Status, res.Error = "error", firstErr
	case len(total.Inconcl) > 0 || q.stopped:
		res.Status = "inconclusive"
		if q.stopped {
			if res.Inconclusive == nil {
				res.Inconclusive = map[string]int{}
			}
			res.Inconclusive["max_paths reached"]++
		}
	case len(viols) > 0:
		res.Status = "violation"
	default:
		res.Status = "ok"
	}
	if len(viols) > 0 && res.Status == "inconclusive" {
		res.Status = "violation" // a reproduced counterexample stands regardless of unexplored parts
	}
	return res
}

// runPath executes one path. Returns status and message.
func (w *W) runPath(job []decision, fn *ssa.Function, wantSample bool) (status, msg string) {
	w.ts = NewTermStore()
	w.sol.Reset()
	w.pcAll = w.pcAll[:0]
	w.pending = w.pending[:0]
	w.prefix = job
	w.pos = 0
	w.trail = w.trail[:0]
	w.newJobs = nil
	w.steps = 0
	w.callDepth = 0
	w.nondets = w.nondets[:0]
	w.events = w.events[:0]
	w.mapOrderND = false
	w.replaced = nil
	w.inconclusive = ""
	w.curSite = ""
	w.traced = nil
	w.traceEvents = nil
	w.traceDeep = false
	w.traceNames = nil
	w.inMapSet = false
	w.stats.Paths++
	defer func() {
		r := recover()
		switch x := r.(type) {
		case nil:
			if w.pos < len(w.prefix) {
				status, msg = "internal", "path ended before consuming its decision prefix"
			} else {
				status = "ok"
				w.stats.PathsOK++
				if wantSample {
					w.takeSample("ok")
				}
			}
		case pathAbort:
			status, msg = x.kind, x.msg
			switch x.kind {
			case "infeasible":
				w.stats.Pruned++
			case "exhausted":
				w.stats.Exhausted++
			case "stop":
				status = "ok"
				w.stats.PathsOK++
			case "violation":
				w.stats.PathsOK++
			}
		case goPanic:
			// uncaught panic of the interpreted program = violation
			status = "panic"
			func() {
				defer func() {
					if r2 := recover(); r2 != nil {
						if pa, ok := r2.(pathAbort); ok {
							status, msg = pa.kind, pa.msg
							return
						}
						panic(r2)
					}
				}()
				res, model := w.modelWith(nil)
				if res == Sat {
					w.curSite = x.site
					w.recordViolation("panic", "uncaught-panic", w.panicString(nil, x.v)+" at "+x.site, model)
				} else if res == Unknown {
					w.noteInconclusive("solver unknown at uncaught panic")
				}
			}()
			w.stats.PathsOK++
		default:
			w.undoAll()
			panic(r)
		}
		if w.inconclusive != "" {
			if w.stats.Inconcl == nil {
				w.stats.Inconcl = map[string]int{}
			}
			w.stats.Inconcl[w.inconclusive]++
			w.stats.Inconclusive++
		}
		if status == "unsupported" || status == "budget" || status == "solver" {
			if w.stats.Inconcl == nil {
				w.stats.Inconcl = map[string]int{}
			}
			if w.inconclusive == "" {
				w.stats.Inconcl[status+": "+msg]++
			}
		}
		w.stats.Steps += w.steps
		if w.steps > w.stats.MaxPathSteps {
			w.stats.MaxPathSteps = w.steps
		}
		w.undoAll()
	}()
	w.call(nil, fn, nil, nil)
	return
}

func (w *W) takeSample(status string) {
	defer func() {
		if r := recover(); r != nil {
			if _, ok := r.(pathAbort); ok {
				return
			}
			panic(r)
		}
	}()
	res, model := w.modelWith(nil)
	if res != Sat {
		return
	}
	nd := make([]nondetRec, len(w.nondets))
	memo := map[int]uint64{}
	for i, r := range w.nondets {
		nd[i] = r
		if r.t != nil {
			nd[i].C = r.t.Eval(model, memo)
		}
	}
	w.lastSample = &Sample{Nondet: nd, Trail: append([]decision(nil), w.trail...), Events: append([]string(nil), w.events...), Steps: w.steps, Status: status}
}

func printForkSites(n int, reset bool) {
	type kv struct {
		k string
		v int
	}
	var l []kv
	forkMu.Lock()
	for k, v := range forkSites {
		l = append(l, kv{k, v})
	}
	if reset {
		forkSites = map[string]int{}
	}
	forkMu.Unlock()
	sort.Slice(l, func(i, j int) bool { return l[i].v > l[j].v })
	for i, e := range l {
		if i >= n {
			break
		}
		fmt.Fprintf(os.Stderr, "[forks] %6d %s\n", e.v, e.k)
	}
}
