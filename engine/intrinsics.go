package main

import (
	"fmt"
	"go/types"
	"math"
	"strings"

	"golang.org/x/tools/go/ssa"
)

type intrinsicFn func(w *W, fr *frame, args []Value) Value

var intrinsics = map[string]intrinsicFn{}

const rtPkg = "github.com/ipfs/go-unixfsnode/internal/verifrt"

func lookupIntrinsic(name string) intrinsicFn {
	if f, ok := intrinsics[name]; ok {
		return f
	}
	return nil
}

func allowedDeniedGlobal(g *ssa.Global) bool {
	// globals of packages whose init is skipped: their zero value is an acceptable
	// model except for the packages listed here, where a read makes the path inconclusive
	switch g.Pkg.Pkg.Path() {
	case "os", "reflect", "net", "time", "math/rand", "testing", "flag", "net/http", "regexp", "encoding/json":
		return false
	}
	return true
}

func tuple(vs ...Value) Value { return Value{k: KTuple, p: vs} }

func (w *W) nondetInt(width uint8, kind string) Value {
	t := w.newVar(width, kind)
	w.nondets = append(w.nondets, nondetRec{Kind: kind, t: t, W: width})
	return Value{k: KInt, w: width, p: t}
}

func init() {
	reg := func(name string, f intrinsicFn) { intrinsics[name] = f }
	rt := func(name string, f intrinsicFn) { intrinsics[rtPkg+"."+name] = f }

	// ---- verifrt ----
	rt("U8", func(w *W, fr *frame, a []Value) Value { return w.nondetInt(8, "u8") })
	rt("U16", func(w *W, fr *frame, a []Value) Value { return w.nondetInt(16, "u16") })
	rt("U32", func(w *W, fr *frame, a []Value) Value { return w.nondetInt(32, "u32") })
	rt("U64", func(w *W, fr *frame, a []Value) Value { return w.nondetInt(64, "u64") })
	rt("I64", func(w *W, fr *frame, a []Value) Value { return w.nondetInt(64, "i64") })
	rt("I32", func(w *W, fr *frame, a []Value) Value { return w.nondetInt(32, "i32") })
	rt("Int", func(w *W, fr *frame, a []Value) Value { return w.nondetInt(64, "i64") })
	rt("Bool", func(w *W, fr *frame, a []Value) Value {
		t := w.newVar(0, "bool")
		w.nondets = append(w.nondets, nondetRec{Kind: "bool", t: t})
		return Value{k: KBool, p: t}
	})
	rt("Bytes", func(w *W, fr *frame, a []Value) Value {
		n := int(w.concreteInt(a[0], "Bytes(n)"))
		out := make([]Value, n)
		for i := range out {
			out[i] = w.nondetInt(8, "u8")
		}
		return mkSlice(out)
	})
	rt("String", func(w *W, fr *frame, a []Value) Value {
		n := int(w.concreteInt(a[0], "String(n)"))
		out := make([]Value, n)
		for i := range out {
			out[i] = w.nondetInt(8, "u8")
		}
		return mkStrFromBytes(out)
	})
	rt("IntRange", func(w *W, fr *frame, a []Value) Value {
		lo, hi := w.intTerm(a[0]), w.intTerm(a[1])
		v := w.nondetInt(64, "i64")
		c := w.ts.BAnd(w.ts.Cmp(OSle, lo, v.term()), w.ts.Cmp(OSle, v.term(), hi))
		w.assume(c, "IntRange")
		return v
	})
	rt("Choose", func(w *W, fr *frame, a []Value) Value {
		n := int(w.concreteInt(a[0], "Choose(n)"))
		k := w.choose(n)
		w.nondets = append(w.nondets, nondetRec{Kind: "choose", C: uint64(k), N: n})
		return mkInt(64, uint64(k))
	})
	rt("Assume", func(w *W, fr *frame, a []Value) Value {
		w.curSite = callerSite(w, fr)
		w.assume(w.boolTerm(a[0]), w.curSite)
		return Value{}
	})
	rt("Assert", func(w *W, fr *frame, a []Value) Value {
		w.curSite = callerSite(w, fr)
		w.assert(a[0], a[1].str())
		return Value{}
	})
	rt("Fail", func(w *W, fr *frame, a []Value) Value {
		w.curSite = callerSite(w, fr)
		w.assert(mkBool(false), a[0].str())
		return Value{}
	})
	rt("Reach", func(w *W, fr *frame, a []Value) Value {
		if w.stats.Reach == nil {
			w.stats.Reach = map[string]int{}
		}
		w.stats.Reach[a[0].str()]++
		return Value{}
	})
	rt("Event", func(w *W, fr *frame, a []Value) Value {
		w.events = append(w.events, a[0].str())
		return Value{}
	})
	rt("Param", func(w *W, fr *frame, a []Value) Value {
		if v, ok := w.params[a[0].str()]; ok {
			return mkInt(64, uint64(int64(v)))
		}
		return a[1]
	})
	rt("Native", func(w *W, fr *frame, a []Value) Value { return mkBool(false) })
	rt("Steps", func(w *W, fr *frame, a []Value) Value { return mkInt(64, uint64(w.steps)) })
	rt("MapOrderNondet", func(w *W, fr *frame, a []Value) Value {
		w.mapOrderND = a[0].c != 0
		return Value{}
	})
	rt("Concrete", func(w *W, fr *frame, a []Value) Value {
		w.curSite = callerSite(w, fr)
		return mkInt(64, w.concreteInt(a[0], "Concrete"))
	})
	rt("ConcreteBool", func(w *W, fr *frame, a []Value) Value {
		w.curSite = callerSite(w, fr)
		return mkBool(w.concreteBool(a[0]))
	})
	rt("ConcreteBytes", func(w *W, fr *frame, a []Value) Value {
		w.curSite = callerSite(w, fr)
		s := a[0].slice()
		out := make([]Value, len(s))
		for i := range s {
			out[i] = mkInt(8, w.concreteInt(s[i], "ConcreteBytes"))
		}
		return mkSlice(out)
	})
	rt("IsSymbolic", func(w *W, fr *frame, a []Value) Value { return mkBool(a[0].p != nil) })
	rt("Replace", func(w *W, fr *frame, a []Value) Value {
		if w.replaced == nil {
			w.replaced = map[string]Value{}
		}
		name := a[0].str()
		it := a[1].iface()
		if it == nil {
			delete(w.replaced, name)
		} else {
			w.replaced[name] = it.v
		}
		return Value{}
	})
	rt("Stop", func(w *W, fr *frame, a []Value) Value {
		panic(pathAbort{kind: "stop"})
	})
	rt("Ite", func(w *W, fr *frame, a []Value) Value {
		// Ite(c bool, x, y int) int without forking
		if a[0].p == nil {
			if a[0].c != 0 {
				return a[1]
			}
			return a[2]
		}
		return mkSymInt(w.ts.Ite(a[0].term(), w.intTerm(a[1]), w.intTerm(a[2])))
	})
	rt("And", func(w *W, fr *frame, a []Value) Value {
		return mkSymBool(w.ts.BAnd(w.boolTerm(a[0]), w.boolTerm(a[1])))
	})
	rt("Or", func(w *W, fr *frame, a []Value) Value {
		return mkSymBool(w.ts.BOr(w.boolTerm(a[0]), w.boolTerm(a[1])))
	})
	rt("Implies", func(w *W, fr *frame, a []Value) Value {
		return mkSymBool(w.ts.BOr(w.ts.BNot(w.boolTerm(a[0])), w.boolTerm(a[1])))
	})
	rt("BytesEq", func(w *W, fr *frame, a []Value) Value {
		// non-forking equality of two byte slices (length must match concretely)
		x, y := a[0].slice(), a[1].slice()
		if len(x) != len(y) {
			return mkBool(false)
		}
		acc := w.ts.tTrue
		for i := range x {
			acc = w.ts.BAnd(acc, w.eqTerm(x[i], y[i]))
		}
		return mkSymBool(acc)
	})
	rt("StrEq", func(w *W, fr *frame, a []Value) Value { return w.equalVals(a[0], a[1]) })
	rt("TraceShared", func(w *W, fr *frame, a []Value) Value {
		it := a[0].iface()
		if it == nil {
			return Value{}
		}
		if p := it.v.ptr(); p != nil {
			w.traceRegister(p, a[1].str(), 0)
		}
		return Value{}
	})
	rt("TraceSharedDeep", func(w *W, fr *frame, a []Value) Value {
		it := a[0].iface()
		if it == nil {
			return Value{}
		}
		if p := it.v.ptr(); p != nil {
			w.traceDeep = true
			w.traceRegister(p, a[1].str(), 0)
			w.traceEscapeCell(p, a[1].str(), 0)
		}
		return Value{}
	})
	rt("TraceMark", func(w *W, fr *frame, a []Value) Value {
		if w.traced != nil {
			w.traceEvents = append(w.traceEvents, "M "+a[0].str())
		}
		return Value{}
	})
	rt("TraceTake", func(w *W, fr *frame, a []Value) Value {
		out := make([]Value, len(w.traceEvents))
		for i, e := range w.traceEvents {
			out[i] = mkStr(e)
		}
		w.traceEvents = nil
		w.traced = nil
		w.traceDeep = false
		w.traceNames = nil
		return mkSlice(out)
	})
	rt("PanicValueString", func(w *W, fr *frame, a []Value) Value {
		return mkStr(w.panicString(fr, a[0]))
	})

	// ---- sync ----
	nop := func(w *W, fr *frame, a []Value) Value { return Value{} }
	lockEv := func(kind string) intrinsicFn {
		return func(w *W, fr *frame, a []Value) Value {
			if w.traced != nil {
				if p := a[0].ptr(); p != nil {
					w.traceAccess(kind, p)
				}
			}
			return Value{}
		}
	}
	reg("(*testing.common).Helper", nop) // marks a frame for log attribution only (needs runtime.Callers)
	reg("(*sync.Mutex).Lock", lockEv("L"))
	reg("(*sync.Mutex).Unlock", lockEv("U"))
	reg("(*sync.RWMutex).Lock", lockEv("L"))
	reg("(*sync.RWMutex).Unlock", lockEv("U"))
	reg("(*sync.RWMutex).RLock", lockEv("L"))
	reg("(*sync.RWMutex).RUnlock", lockEv("U"))
	reg("(*sync.Once).Do", func(w *W, fr *frame, a []Value) Value {
		// single-threaded semantics: run f once per Once value; traced as a section
		p := a[0].ptr()
		cell := &p.p.([]Value)[0] // first field holds the done flag (atomic.Uint32 struct or uint32)
		done := false
		switch cell.k {
		case KStruct:
			fs := cell.p.([]Value)
			done = fs[len(fs)-1].c != 0
		case KInt:
			done = cell.c != 0
		}
		if w.traced != nil {
			w.traceAccess("ONCE-ENTER", p)
		}
		if !done {
			if w.traced != nil {
				w.traceAccess("ONCE-BODY-BEGIN", p)
			}
			// mark done after the body (as sync.Once does), also when it panics
			mark := func() {
				switch cell.k {
				case KStruct:
					fs := cell.p.([]Value)
					w.store(&fs[len(fs)-1], mkInt(fs[len(fs)-1].w, 1))
				case KInt:
					w.store(cell, mkInt(cell.w, 1))
				}
			}
			func() {
				defer mark()
				w.callValue(fr, a[1], nil)
			}()
			if w.traced != nil {
				w.traceAccess("ONCE-BODY-END", p)
			}
		}
		if w.traced != nil {
			w.traceAccess("ONCE-RETURN", p)
		}
		return Value{}
	})
	for _, n := range []string{"(*sync.WaitGroup).Add", "(*sync.WaitGroup).Done", "(*sync.WaitGroup).Wait",
		"runtime.KeepAlive", "runtime.SetFinalizer", "runtime.GC", "runtime.Gosched", "(*sync.Pool).Put", "(*strings.Builder).copyCheck",
		"internal/race.Acquire", "internal/race.Release", "internal/race.ReleaseMerge", "internal/race.Disable", "internal/race.Enable",
		"internal/race.Read", "internal/race.Write", "internal/race.ReadRange", "internal/race.WriteRange",
		"sync.runtime_registerPoolCleanup", "sync.init.0", "sync.init.1", "os.runtime_beforeExit", "runtime.SetCgoTraceback",
		"(*internal/godebug.Setting).IncNonDefault"} {
		reg(n, nop)
	}
	reg("(*sync.Mutex).TryLock", func(w *W, fr *frame, a []Value) Value { return mkBool(true) })
	reg("(*internal/godebug.Setting).Value", func(w *W, fr *frame, a []Value) Value { return mkStr("") })
	reg("internal/godebug.New", func(w *W, fr *frame, a []Value) Value {
		// *Setting with zero fields
		m := w.prog.pkgs["internal/godebug"].Members["Setting"].(*ssa.Type)
		p := new(Value)
		*p = zeroValue(m.Type())
		return mkPtr(p)
	})
	reg("(*sync.Pool).Get", func(w *W, fr *frame, a []Value) Value {
		p := a[0].ptr()
		st := poolStruct(w)
		for i := 0; i < st.NumFields(); i++ {
			if st.Field(i).Name() == "New" {
				nf := p.p.([]Value)[i]
				if nf.p == nil {
					return Value{k: KIface}
				}
				return w.callValue(fr, nf, nil)
			}
		}
		return Value{k: KIface}
	})

	// ---- sync/atomic ----
	for _, ty := range []string{"Int32", "Int64", "Uint32", "Uint64", "Uintptr", "Pointer"} {
		ty := ty
		reg("sync/atomic.Load"+ty, func(w *W, fr *frame, a []Value) Value { return w.load(fr, nil, a[0]) })
		reg("sync/atomic.Store"+ty, func(w *W, fr *frame, a []Value) Value { w.storeTo(fr, nil, a[0], a[1]); return Value{} })
		reg("sync/atomic.Swap"+ty, func(w *W, fr *frame, a []Value) Value {
			old := w.load(fr, nil, a[0])
			w.storeTo(fr, nil, a[0], a[1])
			return old
		})
		reg("sync/atomic.CompareAndSwap"+ty, func(w *W, fr *frame, a []Value) Value {
			old := w.load(fr, nil, a[0])
			if w.concreteBool(w.equalVals(old, a[1])) {
				w.storeTo(fr, nil, a[0], a[2])
				return mkBool(true)
			}
			return mkBool(false)
		})
		if ty != "Pointer" {
			reg("sync/atomic.Add"+ty, func(w *W, fr *frame, a []Value) Value {
				old := w.load(fr, nil, a[0])
				var nv Value
				if old.p == nil && a[1].p == nil {
					nv = mkInt(old.w, old.c+a[1].c)
				} else {
					nv = mkSymInt(w.ts.Bin(OAdd, w.intTerm(old), w.intTerm(a[1])))
				}
				w.storeTo(fr, nil, a[0], nv)
				return nv
			})
		}
	}
	// atomic.Value: keep the stored interface in the first field
	reg("(*sync/atomic.Value).Load", func(w *W, fr *frame, a []Value) Value {
		return a[0].ptr().p.([]Value)[0]
	})
	reg("(*sync/atomic.Value).Store", func(w *W, fr *frame, a []Value) Value {
		w.store(&a[0].ptr().p.([]Value)[0], a[1])
		return Value{}
	})
	// atomic.Pointer[T]: field 2 (v unsafe.Pointer) holds the *T directly
	reg("(*sync/atomic.Pointer[T]).Load", func(w *W, fr *frame, a []Value) Value {
		v := a[0].ptr().p.([]Value)[2]
		if v.k != KPtr {
			return Value{k: KPtr}
		}
		return v
	})
	reg("(*sync/atomic.Pointer[T]).Store", func(w *W, fr *frame, a []Value) Value {
		w.store(&a[0].ptr().p.([]Value)[2], a[1])
		return Value{}
	})
	reg("(*sync/atomic.Pointer[T]).CompareAndSwap", func(w *W, fr *frame, a []Value) Value {
		cell := &a[0].ptr().p.([]Value)[2]
		cur := *cell
		if cur.k != KPtr {
			cur = Value{k: KPtr}
		}
		if cur.p == a[1].p {
			w.store(cell, a[2])
			return mkBool(true)
		}
		return mkBool(false)
	})

	// ---- math ----
	reg("math.Float64bits", func(w *W, fr *frame, a []Value) Value { return mkInt(64, math.Float64bits(a[0].float())) })
	reg("math.Float64frombits", func(w *W, fr *frame, a []Value) Value {
		if a[0].p != nil {
			w.unsupported("Float64frombits of symbolic value")
		}
		return mkFloat(math.Float64frombits(a[0].c), 64)
	})
	reg("math.Float32bits", func(w *W, fr *frame, a []Value) Value {
		return mkInt(32, uint64(math.Float32bits(float32(a[0].float()))))
	})
	reg("math.Float32frombits", func(w *W, fr *frame, a []Value) Value {
		if a[0].p != nil {
			w.unsupported("Float32frombits of symbolic value")
		}
		return mkFloat(float64(math.Float32frombits(uint32(a[0].c))), 32)
	})
	f1 := func(name string, f func(float64) float64) {
		reg(name, func(w *W, fr *frame, a []Value) Value { return mkFloat(f(a[0].float()), 64) })
	}
	f1("math.Sqrt", math.Sqrt)
	f1("math.Floor", math.Floor)
	f1("math.Ceil", math.Ceil)
	f1("math.Trunc", math.Trunc)
	f1("math.Abs", math.Abs)
	f1("math.Log", math.Log)
	f1("math.Exp", math.Exp)
	f1("math.Log2", math.Log2)

	// ---- math/bits on symbolic operands ----
	for _, wd := range []int{8, 16, 32, 64, 0} {
		wd := wd
		suffix := fmt.Sprint(wd)
		if wd == 0 {
			suffix = ""
		}
		reg("math/bits.OnesCount"+suffix, bitsFn(wd, "ones"))
		reg("math/bits.TrailingZeros"+suffix, bitsFn(wd, "tz"))
		reg("math/bits.LeadingZeros"+suffix, bitsFn(wd, "lz"))
		reg("math/bits.Len"+suffix, bitsFn(wd, "len"))
	}

	// ---- bytealg ----
	reg("internal/bytealg.IndexByte", func(w *W, fr *frame, a []Value) Value {
		return w.indexByte(a[0].slice(), a[1])
	})
	reg("internal/bytealg.IndexByteString", func(w *W, fr *frame, a []Value) Value {
		return w.indexByte(strBytes(a[0]), a[1])
	})
	reg("internal/bytealg.LastIndexByte", func(w *W, fr *frame, a []Value) Value {
		return w.lastIndexByte(a[0].slice(), a[1])
	})
	reg("internal/bytealg.LastIndexByteString", func(w *W, fr *frame, a []Value) Value {
		return w.lastIndexByte(strBytes(a[0]), a[1])
	})
	reg("internal/bytealg.Count", func(w *W, fr *frame, a []Value) Value {
		return w.countByte(a[0].slice(), a[1])
	})
	reg("internal/bytealg.CountString", func(w *W, fr *frame, a []Value) Value {
		return w.countByte(strBytes(a[0]), a[1])
	})
	reg("internal/bytealg.Compare", func(w *W, fr *frame, a []Value) Value {
		return w.compareBytes(a[0].slice(), a[1].slice())
	})
	reg("internal/bytealg.CompareString", func(w *W, fr *frame, a []Value) Value {
		return w.compareBytes(strBytes(a[0]), strBytes(a[1]))
	})
	reg("strings.Compare", func(w *W, fr *frame, a []Value) Value {
		return w.compareBytes(strBytes(a[0]), strBytes(a[1]))
	})
	reg("bytes.Compare", func(w *W, fr *frame, a []Value) Value {
		return w.compareBytes(a[0].slice(), a[1].slice())
	})
	reg("internal/bytealg.Equal", func(w *W, fr *frame, a []Value) Value {
		return w.equalVals(mkStrFromBytes(a[0].slice()), mkStrFromBytes(a[1].slice()))
	})
	reg("internal/bytealg.Index", func(w *W, fr *frame, a []Value) Value {
		return w.indexSub(a[0].slice(), a[1].slice())
	})
	reg("internal/bytealg.IndexString", func(w *W, fr *frame, a []Value) Value {
		return w.indexSub(strBytes(a[0]), strBytes(a[1]))
	})
	reg("strings.Index", func(w *W, fr *frame, a []Value) Value {
		return w.indexSub(strBytes(a[0]), strBytes(a[1]))
	})
	reg("bytes.Index", func(w *W, fr *frame, a []Value) Value {
		return w.indexSub(a[0].slice(), a[1].slice())
	})
	reg("internal/bytealg.MakeNoZero", func(w *W, fr *frame, a []Value) Value {
		n := int(w.concreteInt(a[0], "MakeNoZero"))
		out := make([]Value, n)
		for i := range out {
			out[i] = Value{k: KInt, w: 8}
		}
		return mkSlice(out)
	})
	reg("internal/stringslite.Clone", func(w *W, fr *frame, a []Value) Value { return a[0] })
	reg("strings.Clone", func(w *W, fr *frame, a []Value) Value { return a[0] })
	reg("(*strings.Builder).String", func(w *W, fr *frame, a []Value) Value {
		f := a[0].ptr().p.([]Value)
		return mkStrFromBytes(f[1].slice())
	})
	reg("internal/abi.NoEscape", func(w *W, fr *frame, a []Value) Value { return a[0] })
	reg("internal/abi.Escape", func(w *W, fr *frame, a []Value) Value { return a[0] })

	// ---- sort.Slice (reflection-based swapper in the real implementation) ----
	sortSlice := func(w *W, fr *frame, a []Value) Value {
		it := a[0].iface()
		if it == nil || it.v.k != KSlice {
			w.unsupported("sort.Slice on non-slice")
		}
		s := it.v.slice()
		less := a[1]
		// stable insertion sort; `less` reads the live slice, so swap in place
		for i := 1; i < len(s); i++ {
			for j := i; j > 0; j-- {
				r := w.callValue(fr, less, []Value{mkInt(64, uint64(j)), mkInt(64, uint64(j-1))})
				if !w.concreteBool(r) {
					break
				}
				x, y := copyVal(s[j]), copyVal(s[j-1])
				w.assign(&s[j], y)
				w.assign(&s[j-1], x)
			}
		}
		return Value{}
	}
	reg("sort.Slice", sortSlice)
	reg("sort.SliceStable", sortSlice)

	// ---- errors ----
	reg("errors.init", func(w *W, fr *frame, a []Value) Value {
		// errors.init computes a reflectlite type (unused: errors.As is an intrinsic) and ErrUnsupported
		ep := w.prog.pkgs["errors"]
		g := ep.Members["ErrUnsupported"].(*ssa.Global)
		v := w.call(fr, ep.Func("New"), []Value{mkStr("unsupported operation")}, nil)
		w.store(w.global(g), v)
		return Value{}
	})
	reg("errors.Is", func(w *W, fr *frame, a []Value) Value { return mkBool(w.errorsIs(fr, a[0], a[1], 0)) })
	reg("errors.As", func(w *W, fr *frame, a []Value) Value { return mkBool(w.errorsAs(fr, a[0], a[1], 0)) })

	// ---- fmt ----
	reg("fmt.Sprintf", func(w *W, fr *frame, a []Value) Value {
		return w.sprintf(fr, a[0], a[1].slice())
	})
	reg("fmt.Errorf", func(w *W, fr *frame, a []Value) Value { return w.errorf(fr, a[0], a[1].slice()) })
	reg("fmt.Sprint", func(w *W, fr *frame, a []Value) Value { return w.sprint(fr, a[0].slice(), false) })
	reg("fmt.Sprintln", func(w *W, fr *frame, a []Value) Value { return w.sprint(fr, a[0].slice(), true) })
	reg("fmt.Fprintf", func(w *W, fr *frame, a []Value) Value {
		s := w.sprintf(fr, a[1], a[2].slice())
		return w.writeTo(fr, a[0], s)
	})
	reg("fmt.Fprint", func(w *W, fr *frame, a []Value) Value {
		s := w.sprint(fr, a[1].slice(), false)
		return w.writeTo(fr, a[0], s)
	})
	reg("fmt.Fprintln", func(w *W, fr *frame, a []Value) Value {
		s := w.sprint(fr, a[1].slice(), true)
		return w.writeTo(fr, a[0], s)
	})
	reg("fmt.Printf", func(w *W, fr *frame, a []Value) Value {
		return tuple(mkInt(64, 0), Value{k: KIface})
	})
	reg("fmt.Println", func(w *W, fr *frame, a []Value) Value {
		return tuple(mkInt(64, 0), Value{k: KIface})
	})

	// ---- murmur3 (only the unsafe block reader) ----
	reg("(*github.com/spaolacci/murmur3.digest128).bmix", murmurBmix)

	// ---- logging (zap) is a no-op ----
	reg("github.com/ipfs/go-log/v2.Logger", func(w *W, fr *frame, a []Value) Value { return Value{k: KPtr} })
	for _, n := range []string{"Debugf", "Debug", "Infof", "Info", "Warnf", "Warn", "Errorf", "Error", "Debugw", "Infow", "Warnw", "Errorw"} {
		reg("(*go.uber.org/zap.SugaredLogger)."+n, nop)
		reg("(*github.com/ipfs/go-log/v2.ZapEventLogger)."+n, nop)
	}

	// ---- time ----
	reg("time.Now", func(w *W, fr *frame, a []Value) Value {
		w.unsupported("time.Now")
		return Value{}
	})
	reg("time.runtimeNano", func(w *W, fr *frame, a []Value) Value { return mkInt(64, 1) })

	// ---- runtime bits ----
	reg("runtime.Caller", func(w *W, fr *frame, a []Value) Value {
		return tuple(mkInt(64, 0), mkStr(""), mkInt(64, 0), mkBool(false))
	})
	reg("runtime.Callers", func(w *W, fr *frame, a []Value) Value { return mkInt(64, 0) })
	reg("runtime.GOMAXPROCS", func(w *W, fr *frame, a []Value) Value { return mkInt(64, 1) })
	reg("runtime.NumCPU", func(w *W, fr *frame, a []Value) Value { return mkInt(64, 1) })
	reg("internal/cpu.Initialize", nop)
	reg("internal/bytealg.init.0", nop)
	reg("os.Getenv", func(w *W, fr *frame, a []Value) Value { return mkStr("") })
	reg("os.LookupEnv", func(w *W, fr *frame, a []Value) Value { return tuple(mkStr(""), mkBool(false)) })
	reg("syscall.Getenv", func(w *W, fr *frame, a []Value) Value { return tuple(mkStr(""), mkBool(false)) })
}

func callerSite(w *W, fr *frame) string {
	return fr.info.name
}

func poolStruct(w *W) *types.Struct {
	m := w.prog.pkgs["sync"].Members["Pool"].(*ssa.Type)
	return m.Type().Underlying().(*types.Struct)
}

func (w *W) assume(c *Term, what string) {
	if c.isConst() {
		if c.c == 0 {
			w.notePruned(what)
			w.abort("infeasible", "assume false: %s", what)
		}
		return
	}
	if w.replaying() {
		// feasibility is implied by the queued decision that follows
		w.addPC(c)
		return
	}
	res, _ := w.check(c, nil)
	if res == Unsat {
		w.notePruned(what)
		w.abort("infeasible", "assume unsat: %s", what)
	}
	if res == Unknown {
		w.noteInconclusive("solver unknown on assume")
	}
	w.addPC(c)
}

func (w *W) notePruned(what string) {
	if w.stats.Assumes == nil {
		w.stats.Assumes = map[string]int{}
	}
	w.stats.Assumes[what]++
}

func (w *W) assert(cv Value, label string) {
	if cv.p == nil {
		w.stats.AssertsConc++
		if cv.c != 0 {
			return
		}
		res, model := w.modelWith(nil)
		if res == Unsat {
			w.abort("infeasible", "path infeasible at failing assert")
		}
		if res == Unknown {
			w.noteInconclusive("solver unknown at assert")
			w.abort("solver", "unknown at assert")
		}
		w.recordViolation("assert", label, "", model)
		panic(pathAbort{kind: "violation"})
	}
	w.stats.AssertsSym++
	c := cv.term()
	res, model := w.modelWith(w.ts.BNot(c))
	if res != Unknown {
		if r2, ok := w.sol.CrossCheck(w.ts.BNot(c)); ok {
			w.stats.XChecked++
			if r2 != res {
				w.stats.XDisagree++
				w.noteInconclusive(fmt.Sprintf("solver disagreement at assert %s: %s says %s, %s says %s", label, w.sol.kind, res, xcheckSolver, r2))
			}
		}
	}
	if res == Unknown {
		w.noteInconclusive("solver unknown at assert " + label)
		w.abort("solver", "unknown at assert")
	}
	if res == Sat {
		// evaluate under the model: ¬c must hold
		w.recordViolation("assert", label, "", model)
		// continue on the side where the assertion holds, if any
		r2, _ := w.check(c, nil)
		if r2 != Sat {
			panic(pathAbort{kind: "violation"})
		}
		w.addPC(c)
		return
	}
	// unsat: holds on this path; c is implied, no need to add it
}

// panicString renders a recovered panic value.
func (w *W) panicString(fr *frame, v Value) string {
	it := v.iface()
	if it == nil {
		return "nil"
	}
	s := w.fmtValue(fr, v, 'v', fmtSpec{})
	if str, ok := s.p.(string); ok {
		return str
	}
	return "<symbolic panic text>"
}

// ---- math/bits ------------------------------------------------------------------

func bitsFn(wd int, what string) intrinsicFn {
	return func(w *W, fr *frame, a []Value) Value {
		x := a[0]
		width := uint8(wd)
		if wd == 0 {
			width = 64
		}
		if x.p == nil {
			c := x.c
			n := 0
			switch what {
			case "ones":
				for i := uint8(0); i < width; i++ {
					if c>>i&1 != 0 {
						n++
					}
				}
			case "tz":
				n = int(width)
				for i := int(width) - 1; i >= 0; i-- {
					if c>>uint(i)&1 != 0 {
						n = i
					}
				}
			case "len", "lz":
				for i := 0; i < int(width); i++ {
					if c>>uint(i)&1 != 0 {
						n = i + 1
					}
				}
				if what == "lz" {
					n = int(width) - n
				}
			}
			return mkInt(64, uint64(n))
		}
		ts := w.ts
		t := x.term()
		bit := func(i uint8) *Term { return ts.Cmp(OEq, ts.Extract(t, i, i), ts.Const(1, 1)) }
		var acc *Term
		switch what {
		case "ones":
			acc = ts.Const(64, 0)
			for i := uint8(0); i < width; i++ {
				acc = ts.Bin(OAdd, acc, ts.ZExt(ts.Extract(t, i, i), 64))
			}
		case "tz":
			acc = ts.Const(64, uint64(width))
			for i := int(width) - 1; i >= 0; i-- {
				acc = ts.Ite(bit(uint8(i)), ts.Const(64, uint64(i)), acc)
			}
		case "len", "lz":
			acc = ts.Const(64, 0)
			for i := 0; i < int(width); i++ {
				acc = ts.Ite(bit(uint8(i)), ts.Const(64, uint64(i+1)), acc)
			}
			if what == "lz" {
				acc = ts.Bin(OSub, ts.Const(64, uint64(width)), acc)
			}
		}
		return mkSymInt(acc)
	}
}

// ---- byte search helpers --------------------------------------------------------

func (w *W) indexByte(b []Value, c Value) Value {
	for i := range b {
		if w.concreteBool(w.equalVals(b[i], c)) {
			return mkInt(64, uint64(i))
		}
	}
	return mkInt(64, ^uint64(0))
}

func (w *W) lastIndexByte(b []Value, c Value) Value {
	for i := len(b) - 1; i >= 0; i-- {
		if w.concreteBool(w.equalVals(b[i], c)) {
			return mkInt(64, uint64(i))
		}
	}
	return mkInt(64, ^uint64(0))
}

func (w *W) countByte(b []Value, c Value) Value {
	acc := w.ts.Const(64, 0)
	for i := range b {
		e := w.eqTerm(b[i], c)
		acc = w.ts.Bin(OAdd, acc, w.ts.Ite(e, w.ts.Const(64, 1), w.ts.Const(64, 0)))
	}
	return mkSymInt(acc)
}

func (w *W) compareBytes(x, y []Value) Value {
	lt := w.strLess(mkStrFromBytes(x), mkStrFromBytes(y), false)
	gt := w.strLess(mkStrFromBytes(y), mkStrFromBytes(x), false)
	if lt.p == nil && gt.p == nil {
		switch {
		case lt.c != 0:
			return mkInt(64, ^uint64(0))
		case gt.c != 0:
			return mkInt(64, 1)
		}
		return mkInt(64, 0)
	}
	ts := w.ts
	return mkSymInt(ts.Ite(w.boolTerm(lt), ts.Const(64, ^uint64(0)), ts.Ite(w.boolTerm(gt), ts.Const(64, 1), ts.Const(64, 0))))
}

func (w *W) indexSub(s, sep []Value) Value {
	n := len(sep)
	for i := 0; i+n <= len(s); i++ {
		if w.concreteBool(w.equalVals(mkStrFromBytes(s[i:i+n]), mkStrFromBytes(sep))) {
			return mkInt(64, uint64(i))
		}
	}
	return mkInt(64, ^uint64(0))
}

// ---- errors.Is / errors.As ------------------------------------------------------

func (w *W) methodByName(t types.Type, name string) *ssa.Function {
	ms := w.prog.prog.MethodSets.MethodSet(t)
	for i := 0; i < ms.Len(); i++ {
		if ms.At(i).Obj().Name() == name {
			return w.prog.prog.MethodValue(ms.At(i))
		}
	}
	return nil
}

func (w *W) errorsIs(fr *frame, err, target Value, depth int) bool {
	if depth > 100 {
		w.unsupported("errors.Is chain too deep")
	}
	ei := err.iface()
	if ei == nil {
		return target.iface() == nil
	}
	ti := target.iface()
	comparable := ti == nil || types.Comparable(ti.t)
	for {
		if comparable && w.concreteBool(w.equalVals(err, target)) {
			return true
		}
		ei = err.iface()
		if m := w.methodByName(ei.t, "Is"); m != nil && m.Signature.Params().Len() == 1 && m.Signature.Results().Len() == 1 {
			if r := w.call(fr, m, []Value{ei.v, target}, nil); r.k == KBool && w.concreteBool(r) {
				return true
			}
		}
		m := w.methodByName(ei.t, "Unwrap")
		if m == nil || m.Signature.Results().Len() != 1 {
			return false
		}
		r := w.call(fr, m, []Value{ei.v}, nil)
		switch r.k {
		case KIface:
			if r.p == nil {
				return false
			}
			err = r
		case KSlice:
			for _, e := range r.slice() {
				if e.p != nil && w.errorsIs(fr, e, target, depth+1) {
					return true
				}
			}
			return false
		default:
			return false
		}
	}
}

func (w *W) errorsAs(fr *frame, err, target Value, depth int) bool {
	ti := target.iface()
	if ti == nil {
		panic(goPanic{v: mkIface(types.Typ[types.String], mkStr("errors: target cannot be nil"))})
	}
	pt, ok := ti.t.Underlying().(*types.Pointer)
	if !ok {
		panic(goPanic{v: mkIface(types.Typ[types.String], mkStr("errors: target must be a non-nil pointer"))})
	}
	tt := pt.Elem()
	for depth < 100 {
		ei := err.iface()
		if ei == nil {
			return false
		}
		if iface, isI := tt.Underlying().(*types.Interface); isI {
			if w.implements(ei.t, iface, tt) {
				w.storeTo(fr, nil, ti.v, err)
				return true
			}
		} else if types.Identical(ei.t, tt) {
			w.storeTo(fr, nil, ti.v, ei.v)
			return true
		}
		if m := w.methodByName(ei.t, "As"); m != nil && m.Signature.Params().Len() == 1 {
			if r := w.call(fr, m, []Value{ei.v, target}, nil); r.k == KBool && w.concreteBool(r) {
				return true
			}
		}
		m := w.methodByName(ei.t, "Unwrap")
		if m == nil || m.Signature.Results().Len() != 1 {
			return false
		}
		r := w.call(fr, m, []Value{ei.v}, nil)
		switch r.k {
		case KIface:
			if r.p == nil {
				return false
			}
			err = r
		case KSlice:
			for _, e := range r.slice() {
				if e.p != nil && w.errorsAs(fr, e, target, depth+1) {
					return true
				}
			}
			return false
		default:
			return false
		}
		depth++
	}
	return false
}

// ---- murmur3 bmix ---------------------------------------------------------------

func murmurBmix(w *W, fr *frame, a []Value) Value {
	d := a[0].ptr().p.([]Value) // digest128 struct
	p := a[1].slice()
	// locate fields h1, h2 by name
	st := fr.fn.Prog.ImportedPackage("github.com/spaolacci/murmur3").Members["digest128"].(*ssa.Type).Type().Underlying().(*types.Struct)
	var ih1, ih2 int
	for i := 0; i < st.NumFields(); i++ {
		switch st.Field(i).Name() {
		case "h1":
			ih1 = i
		case "h2":
			ih2 = i
		}
	}
	const c1, c2 = 0x87c37b91114253d5, 0x4cf5ad432745937f
	rotl := func(x uint64, k uint) uint64 { return x<<k | x>>(64-k) }
	if d[ih1].p != nil || d[ih2].p != nil {
		w.unsupported("murmur3 bmix on symbolic state")
	}
	h1, h2 := d[ih1].c, d[ih2].c
	nblocks := len(p) / 16
	for i := 0; i < nblocks; i++ {
		var t [2]uint64
		for j := 0; j < 16; j++ {
			b := p[i*16+j]
			if b.p != nil {
				w.unsupported("murmur3 over symbolic bytes (use the symbolic name-hash model)")
			}
			t[j/8] |= b.c << (8 * uint(j%8))
		}
		k1, k2 := t[0], t[1]
		k1 *= c1
		k1 = rotl(k1, 31)
		k1 *= c2
		h1 ^= k1
		h1 = rotl(h1, 27)
		h1 += h2
		h1 = h1*5 + 0x52dce729
		k2 *= c2
		k2 = rotl(k2, 33)
		k2 *= c1
		h2 ^= k2
		h2 = rotl(h2, 31)
		h2 += h1
		h2 = h2*5 + 0x38495ab5
	}
	w.store(&d[ih1], mkInt(64, h1))
	w.store(&d[ih2], mkInt(64, h2))
	rest := p[nblocks*16:]
	if rest == nil {
		rest = []Value{}
	}
	return mkSlice(rest)
}

var _ = strings.Builder{}
