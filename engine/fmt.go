package main

// Mini formatter standing in for package fmt (which is reflection-driven).

import (
	"fmt"
	"go/types"
	"strings"

	"golang.org/x/tools/go/ssa"
)

type fmtSpec struct {
	flags   string
	width   int
	hasW    bool
	prec    int
	hasP    bool
	wrapIdx int
}

func (s fmtSpec) hostFmt(verb byte) string {
	var sb strings.Builder
	sb.WriteByte('%')
	sb.WriteString(s.flags)
	if s.hasW {
		fmt.Fprintf(&sb, "%d", s.width)
	}
	if s.hasP {
		fmt.Fprintf(&sb, ".%d", s.prec)
	}
	sb.WriteByte(verb)
	return sb.String()
}

// bytesOfStr converts a formatted fragment to byte Values.
func appendStr(out []Value, s string) []Value {
	for i := 0; i < len(s); i++ {
		out = append(out, Value{k: KInt, w: 8, c: uint64(s[i])})
	}
	return out
}

func (w *W) sprintf(fr *frame, format Value, args []Value) Value {
	out, _ := w.doSprintf(fr, format, args)
	return mkStrFromBytes(out)
}

func (w *W) doSprintf(fr *frame, format Value, args []Value) ([]Value, Value) {
	f := format.str()
	var out []Value
	argi := 0
	var wrapped Value
	nextArg := func() (Value, bool) {
		if argi < len(args) {
			a := args[argi]
			argi++
			return a, true
		}
		return Value{}, false
	}
	for i := 0; i < len(f); {
		c := f[i]
		if c != '%' {
			out = append(out, Value{k: KInt, w: 8, c: uint64(c)})
			i++
			continue
		}
		i++
		if i >= len(f) {
			out = appendStr(out, "%!(NOVERB)")
			break
		}
		var sp fmtSpec
		for i < len(f) && strings.IndexByte("+-# 0", f[i]) >= 0 {
			sp.flags += string(f[i])
			i++
		}
		if i < len(f) && f[i] == '*' {
			a, ok := nextArg()
			if ok {
				it := a.iface()
				if it != nil && it.v.k == KInt {
					sp.width = int(int64(w.concreteInt(it.v, "fmt * width")))
					sp.hasW = true
				}
			}
			i++
		} else {
			for i < len(f) && f[i] >= '0' && f[i] <= '9' {
				sp.width = sp.width*10 + int(f[i]-'0')
				sp.hasW = true
				i++
			}
		}
		if i < len(f) && f[i] == '.' {
			i++
			sp.hasP = true
			for i < len(f) && f[i] >= '0' && f[i] <= '9' {
				sp.prec = sp.prec*10 + int(f[i]-'0')
				i++
			}
		}
		if i >= len(f) {
			out = appendStr(out, "%!(NOVERB)")
			break
		}
		verb := f[i]
		i++
		if verb == '%' {
			out = append(out, Value{k: KInt, w: 8, c: '%'})
			continue
		}
		a, ok := nextArg()
		if !ok {
			out = appendStr(out, "%!"+string(verb)+"(MISSING)")
			continue
		}
		if verb == 'w' {
			wrapped = a
			verb = 'v'
		}
		s := w.fmtValue(fr, a, verb, sp)
		out = append(out, strBytes(s)...)
	}
	if argi < len(args) {
		out = appendStr(out, "%!(EXTRA)")
	}
	return out, wrapped
}

func (w *W) errorf(fr *frame, format Value, args []Value) Value {
	out, wrapped := w.doSprintf(fr, format, args)
	msg := mkStrFromBytes(out)
	if wrapped.k == KIface && wrapped.p != nil {
		fp := w.prog.pkgs["fmt"]
		if fp != nil {
			if m, ok := fp.Members["wrapError"].(*ssa.Type); ok {
				p := new(Value)
				*p = Value{k: KStruct, p: []Value{msg, wrapped}}
				return mkIface(types.NewPointer(m.Type()), mkPtr(p))
			}
		}
	}
	return w.newError(fr, msg)
}

func (w *W) newError(fr *frame, msg Value) Value {
	ep := w.prog.pkgs["errors"]
	fn := ep.Func("New")
	return w.call(fr, fn, []Value{msg}, nil)
}

func (w *W) sprint(fr *frame, args []Value, ln bool) Value {
	var out []Value
	prevStr := true
	for i, a := range args {
		isStr := false
		if it := a.iface(); it != nil && it.v.k == KString {
			isStr = true
		}
		if i > 0 && (ln || (!isStr && !prevStr)) {
			out = append(out, Value{k: KInt, w: 8, c: ' '})
		}
		out = append(out, strBytes(w.fmtValue(fr, a, 'v', fmtSpec{}))...)
		prevStr = isStr
	}
	if ln {
		out = append(out, Value{k: KInt, w: 8, c: '\n'})
	}
	return mkStrFromBytes(out)
}

func (w *W) writeTo(fr *frame, wr Value, s Value) Value {
	it := wr.iface()
	if it == nil {
		w.rtPanic(fr, nil, "nil writer")
	}
	m := w.methodByName(it.t, "Write")
	if m == nil {
		w.unsupported("writer without Write: %s", it.t)
	}
	b := strBytes(s)
	if b == nil {
		b = []Value{}
	}
	return w.call(fr, m, []Value{it.v, mkSlice(b)}, nil)
}

// fmtValue formats one operand (an interface value) under a verb.
func (w *W) fmtValue(fr *frame, a Value, verb byte, sp fmtSpec) Value {
	var it *Iface
	if a.k == KIface {
		it = a.iface()
	} else {
		it = &Iface{v: a}
	}
	if it == nil {
		if verb == 'v' {
			return mkStr("<nil>")
		}
		return mkStr("%!" + string(verb) + "(<nil>)")
	}
	if it.t != nil && (verb == 'v' || verb == 's' || verb == 'q') {
		// error / Stringer
		isNilPtr := it.v.k == KPtr && it.v.p == nil
		if !isNilPtr {
			if m := w.methodByName(it.t, "Error"); m != nil && m.Signature.Params().Len() == 0 && m.Signature.Results().Len() == 1 {
				s := w.call(fr, m, []Value{it.v}, nil)
				return w.fmtScalar(s, verb, sp, nil)
			}
			if m := w.methodByName(it.t, "String"); m != nil && m.Signature.Params().Len() == 0 && m.Signature.Results().Len() == 1 {
				s := w.call(fr, m, []Value{it.v}, nil)
				if s.k == KString {
					return w.fmtScalar(s, verb, sp, nil)
				}
			}
		}
	}
	if verb == 'T' {
		if it.t == nil {
			return mkStr("?")
		}
		return mkStr(types.TypeString(it.t, func(p *types.Package) string { return p.Name() }))
	}
	return w.fmtScalar(it.v, verb, sp, it.t)
}

func (w *W) fmtScalar(v Value, verb byte, sp fmtSpec, t types.Type) Value {
	switch v.k {
	case KString:
		if s, ok := v.p.(string); ok || v.p == nil {
			switch verb {
			case 'v', 's':
				if sp.flags == "" && !sp.hasW && !sp.hasP {
					return mkStr(s)
				}
				return mkStr(fmt.Sprintf(sp.hostFmt('s'), s))
			case 'q', 'x', 'X':
				return mkStr(fmt.Sprintf(sp.hostFmt(verb), s))
			case 'd':
				return mkStr("%!d(string=" + s + ")")
			}
			return mkStr(fmt.Sprintf(sp.hostFmt(verb), s))
		}
		switch verb {
		case 'v', 's':
			return v
		case 'q':
			w.stats.SymFmt++
			return strConcat(strConcat(mkStr(`"`), v), mkStr(`"`))
		}
		w.stats.SymFmt++
		return mkStr("<symstr>")
	case KInt:
		signed := true
		isByteLike := false
		if t != nil {
			if b := basicOf(t); b != nil && b.Info()&types.IsInteger != 0 {
				_, signed = intWidth(b)
			}
		}
		_ = isByteLike
		if v.p == nil {
			var hv any
			if signed {
				hv = sext(v.c, v.w)
			} else {
				hv = v.c
			}
			switch verb {
			case 'v':
				return mkStr(fmt.Sprintf(sp.hostFmt('d'), hv))
			case 's':
				return mkStr("%!s(int=" + fmt.Sprint(hv) + ")")
			}
			return mkStr(fmt.Sprintf(sp.hostFmt(verb), hv))
		}
		return w.fmtSymInt(v, verb, sp, signed)
	case KBool:
		if v.p == nil {
			if verb == 'v' || verb == 't' {
				return mkStr(fmt.Sprint(v.c != 0))
			}
			return mkStr(fmt.Sprintf(sp.hostFmt(verb), v.c != 0))
		}
		w.stats.SymFmt++
		return mkStr("<symbool>")
	case KFloat:
		if verb == 'v' {
			verb = 'g'
		}
		return mkStr(fmt.Sprintf(sp.hostFmt(verb), v.float()))
	case KSlice:
		if t != nil {
			if sl, ok := t.Underlying().(*types.Slice); ok {
				if b := basicOf(sl.Elem()); b != nil && b.Kind() == types.Uint8 {
					el := v.slice()
					conc := true
					for i := range el {
						if el[i].p != nil {
							conc = false
							break
						}
					}
					if conc {
						bs := make([]byte, len(el))
						for i := range el {
							bs[i] = byte(el[i].c)
						}
						return mkStr(fmt.Sprintf(sp.hostFmt(verb), bs))
					}
					if verb == 's' {
						return mkStrFromBytes(el)
					}
					w.stats.SymFmt++
					return mkStr("<symbytes>")
				}
			}
		}
		var sb strings.Builder
		sb.WriteByte('[')
		for i, e := range v.slice() {
			if i > 0 {
				sb.WriteByte(' ')
			}
			var et types.Type
			if t != nil {
				if sl, ok := t.Underlying().(*types.Slice); ok {
					et = sl.Elem()
				}
			}
			s := w.fmtAny(e, verb, sp, et)
			sb.WriteString(s)
		}
		sb.WriteByte(']')
		return mkStr(sb.String())
	case KPtr:
		if v.p == nil {
			return mkStr("<nil>")
		}
		return mkStr("0xc000000000")
	case KIface:
		return w.fmtValue(nil, v, verb, sp)
	case KStruct, KArray, KMap, KFunc:
		w.stats.SymFmt++
		return mkStr("{" + describe(v) + "}")
	case KInvalid:
		return mkStr("<nil>")
	}
	return mkStr("<" + kindNames[v.k] + ">")
}

func (w *W) fmtAny(e Value, verb byte, sp fmtSpec, et types.Type) string {
	var s Value
	if e.k == KIface {
		s = w.fmtValue(nil, e, verb, sp)
	} else {
		s = w.fmtScalar(e, verb, sp, et)
	}
	if str, ok := s.p.(string); ok {
		return str
	}
	return "<sym>"
}

// fmtSymInt formats a symbolic integer. %0NX / %0Nx with the value provably
// below 16^N (decided by the solver, forking otherwise) yields exact symbolic
// hex digits; every other verb falls back to a complete case split when the
// range is small, or to a placeholder (counted in SymFmt).
func (w *W) fmtSymInt(v Value, verb byte, sp fmtSpec, signed bool) Value {
	ts := w.ts
	t := v.term()
	if (verb == 'X' || verb == 'x') && strings.Contains(sp.flags, "0") && sp.hasW && sp.width > 0 && sp.width <= 16 && !strings.ContainsAny(sp.flags, "+-# ") {
		wide := t
		if t.w < 64 {
			if signed {
				wide = ts.SExt(t, 64)
			} else {
				wide = ts.ZExt(t, 64)
			}
		}
		var fits *Term
		if sp.width >= 16 {
			if signed {
				fits = ts.Cmp(OSle, ts.Const(64, 0), wide)
			} else {
				fits = ts.tTrue
			}
		} else {
			fits = ts.Cmp(OUlt, wide, ts.Const(64, uint64(1)<<(4*uint(sp.width))))
		}
		if w.decideBool(fits) {
			out := make([]Value, sp.width)
			for i := 0; i < sp.width; i++ {
				sh := uint8(4 * (sp.width - 1 - i))
				d := ts.ZExt(ts.Extract(wide, sh+3, sh), 8)
				base := uint64('A' - 10)
				if verb == 'x' {
					base = 'a' - 10
				}
				ch := ts.Ite(ts.Cmp(OUlt, d, ts.Const(8, 10)), ts.Bin(OAdd, d, ts.Const(8, '0')), ts.Bin(OAdd, d, ts.Const(8, base)))
				out[i] = mkSymInt(ch)
			}
			return mkStrFromBytes(out)
		}
	}
	if verb == 'X' || verb == 'x' || verb == 'c' {
		c := w.concretize(t, "fmt verb operand")
		return w.fmtScalar(mkInt(v.w, c), verb, sp, intType(v.w, signed))
	}
	w.stats.SymFmt++
	return mkStr("<symint>")
}

func intType(wd uint8, signed bool) types.Type {
	switch {
	case wd == 8 && signed:
		return types.Typ[types.Int8]
	case wd == 8:
		return types.Typ[types.Uint8]
	case wd == 16 && signed:
		return types.Typ[types.Int16]
	case wd == 16:
		return types.Typ[types.Uint16]
	case wd == 32 && signed:
		return types.Typ[types.Int32]
	case wd == 32:
		return types.Typ[types.Uint32]
	case signed:
		return types.Typ[types.Int64]
	}
	return types.Typ[types.Uint64]
}
