package main

// Symbolic interpreter for go/ssa.

import (
	"fmt"
	"go/constant"
	"go/token"
	"go/types"
	"os"
	"strings"
	"sync"

	"golang.org/x/tools/go/ssa"
)

var traceFn = os.Getenv("GOSYM_TRACE")
var debugPanics = os.Getenv("GOSYM_DEBUG_PANICS") != ""

type Program struct {
	prog     *ssa.Program
	infos    sync.Map // *ssa.Function -> *fnInfo
	mainPkg  *ssa.Package
	pkgs     map[string]*ssa.Package
	fset     *token.FileSet
	denyInit map[string]bool
}

type opKind uint8

const (
	opNone opKind = iota
	opReg
	opConst
	opGlobal
	opFunc
	opBuiltin
)

type opnd struct {
	kind opKind
	idx  int
	val  Value
	g    *ssa.Global
}

type cinstr struct {
	ins ssa.Instruction
	dst int
	ops []opnd
}

type fnInfo struct {
	fn        *ssa.Function
	nregs     int
	blocks    [][]cinstr
	params    []int
	freevars  []int
	hasDefer  bool
	intrinsic intrinsicFn
	name      string
	skipInit  bool
}

type deferred struct {
	fn   Value
	args []Value
	ins  *ssa.Defer
	tail *deferred
}

type frame struct {
	w         *W
	caller    *frame
	fn        *ssa.Function
	info      *fnInfo
	regs      []Value
	block     int
	prevBlock int
	defers    *deferred
	result    Value
	panicking bool
	panicVal  goPanic
	done      bool
}

func (p *Program) info(fn *ssa.Function) *fnInfo {
	if v, ok := p.infos.Load(fn); ok {
		return v.(*fnInfo)
	}
	fi := p.buildInfo(fn)
	v, _ := p.infos.LoadOrStore(fn, fi)
	return v.(*fnInfo)
}

func fnName(fn *ssa.Function) string {
	if o := fn.Origin(); o != nil {
		return o.String()
	}
	return fn.String()
}

func (p *Program) buildInfo(fn *ssa.Function) *fnInfo {
	fi := &fnInfo{fn: fn, name: fnName(fn)}
	fi.intrinsic = lookupIntrinsic(fi.name)
	if fn.Name() == "init" && fn.Parent() == nil && fn.Signature.Recv() == nil && fn.Pkg != nil && p.denyInit[fn.Pkg.Pkg.Path()] {
		fi.skipInit = true
	}
	if fn.Blocks == nil {
		return fi
	}
	idx := map[ssa.Value]int{}
	n := 0
	for _, prm := range fn.Params {
		idx[prm] = n
		fi.params = append(fi.params, n)
		n++
	}
	for _, fv := range fn.FreeVars {
		idx[fv] = n
		fi.freevars = append(fi.freevars, n)
		n++
	}
	for _, b := range fn.Blocks {
		for _, ins := range b.Instrs {
			if v, ok := ins.(ssa.Value); ok {
				idx[v] = n
				n++
			}
		}
	}
	fi.nregs = n
	fi.blocks = make([][]cinstr, len(fn.Blocks))
	var rands []*ssa.Value
	for bi, b := range fn.Blocks {
		cis := make([]cinstr, 0, len(b.Instrs))
		for _, ins := range b.Instrs {
			if _, ok := ins.(*ssa.DebugRef); ok {
				continue
			}
			ci := cinstr{ins: ins, dst: -1}
			if v, ok := ins.(ssa.Value); ok {
				ci.dst = idx[v]
			}
			if _, ok := ins.(*ssa.Defer); ok {
				fi.hasDefer = true
			}
			rands = ins.Operands(rands[:0])
			ci.ops = make([]opnd, len(rands))
			for i, r := range rands {
				ci.ops[i] = p.mkOpnd(*r, idx)
			}
			cis = append(cis, ci)
		}
		fi.blocks[bi] = cis
	}
	return fi
}

func (p *Program) mkOpnd(v ssa.Value, idx map[ssa.Value]int) opnd {
	switch v := v.(type) {
	case nil:
		return opnd{kind: opNone}
	case *ssa.Const:
		return opnd{kind: opConst, val: constValue(v)}
	case *ssa.Global:
		return opnd{kind: opGlobal, g: v}
	case *ssa.Function:
		return opnd{kind: opFunc, val: Value{k: KFunc, p: &Closure{fn: v}}}
	case *ssa.Builtin:
		return opnd{kind: opBuiltin, val: Value{k: KFunc, p: &Closure{bi: v}}}
	}
	i, ok := idx[v]
	if !ok {
		panic(fmt.Sprintf("operand without register: %T %v", v, v))
	}
	return opnd{kind: opReg, idx: i}
}

func constValue(c *ssa.Const) Value {
	t := c.Type()
	if _, ok := t.(*types.TypeParam); ok {
		panic("const of type param")
	}
	ut := t.Underlying()
	if c.Value == nil {
		return zeroValue(t)
	}
	if b, ok := ut.(*types.Basic); ok {
		switch {
		case b.Info()&types.IsBoolean != 0:
			return mkBool(constant.BoolVal(c.Value))
		case b.Info()&types.IsInteger != 0:
			w, signed := intWidth(b)
			if signed {
				i, _ := constant.Int64Val(constant.ToInt(c.Value))
				return mkInt(w, uint64(i))
			}
			u, _ := constant.Uint64Val(constant.ToInt(c.Value))
			return mkInt(w, u)
		case b.Info()&types.IsFloat != 0:
			f, _ := constant.Float64Val(c.Value)
			if b.Kind() == types.Float32 {
				return mkFloat(float64(float32(f)), 32)
			}
			return mkFloat(f, 64)
		case b.Info()&types.IsString != 0:
			if c.Value.Kind() == constant.String {
				return mkStr(constant.StringVal(c.Value))
			}
			// rune/int constant converted to string
			i, _ := constant.Int64Val(constant.ToInt(c.Value))
			return mkStr(string(rune(i)))
		case b.Info()&types.IsComplex != 0:
			re, _ := constant.Float64Val(constant.Real(c.Value))
			im, _ := constant.Float64Val(constant.Imag(c.Value))
			return Value{k: KComplex, p: Complex{re, im}}
		}
	}
	panic(fmt.Sprintf("constValue: %v %v", c, t))
}

func (fr *frame) get(o *opnd) Value {
	switch o.kind {
	case opReg:
		return fr.regs[o.idx]
	case opConst, opFunc, opBuiltin:
		return o.val
	case opGlobal:
		return mkPtr(fr.w.global(o.g))
	}
	return Value{}
}

func (w *W) global(g *ssa.Global) *Value {
	if p, ok := w.globals[g]; ok {
		return p
	}
	if g.Pkg != nil && w.prog.denyInit[g.Pkg.Pkg.Path()] {
		if !allowedDeniedGlobal(g) {
			w.unsupported("read of global %s of a package whose initialiser is not executed", g.String())
		}
	}
	p := new(Value)
	*p = zeroValue(g.Type().(*types.Pointer).Elem())
	if w.journaling {
		w.journal = append(w.journal, undoRec{fn: func() { delete(w.globals, g) }})
	}
	w.globals[g] = p
	return p
}

const maxCallDepth = 2000

// call invokes fn with args (receiver first) and closure env.
func (w *W) call(caller *frame, fn *ssa.Function, args []Value, env []Value) Value {
	info := w.prog.info(fn)
	if w.replaced != nil {
		if rv, ok := w.replaced[info.name]; ok {
			return w.callValue(caller, rv, args)
		}
	}
	if info.skipInit {
		return Value{}
	}
	if info.intrinsic != nil {
		if w.funcsSeen != nil {
			w.funcsSeen[fn] = struct{}{}
		}
		return info.intrinsic(w, caller, args)
	}
	if fn.Blocks == nil {
		w.unsupported("external function without intrinsic: %s", info.name)
	}
	if w.funcsSeen != nil {
		w.funcsSeen[fn] = struct{}{}
	}
	w.callDepth++
	if w.callDepth > maxCallDepth {
		w.noteInconclusive("call depth exceeded")
		w.abort("budget", "call depth exceeded in %s", info.name)
	}
	fr := &frame{w: w, caller: caller, fn: fn, info: info, regs: make([]Value, info.nregs)}
	for i, r := range info.params {
		fr.regs[r] = args[i]
	}
	for i, r := range info.freevars {
		fr.regs[r] = env[i]
	}
	saveTop := w.top
	w.top = fr
	if info.hasDefer {
		for !fr.done {
			w.runFrameDefer(fr)
		}
	} else {
		w.runBlocks(fr)
	}
	w.callDepth--
	w.top = saveTop
	return fr.result
}

func (w *W) runFrameDefer(fr *frame) {
	depth := w.callDepth
	defer func() {
		if fr.done {
			return
		}
		r := recover()
		gp, ok := r.(goPanic)
		if !ok {
			panic(r) // path abort or interpreter bug: do not run interpreted defers
		}
		w.callDepth = depth
		fr.panicking = true
		fr.panicVal = gp
		fr.runDefers()
		// recovered: continue at the Recover block
		if fr.fn.Recover != nil {
			fr.block = fr.fn.Recover.Index
			fr.prevBlock = -1
		} else {
			fr.done = true
			fr.result = zeroResult(fr.fn)
		}
	}()
	w.runBlocks(fr)
}

func zeroResult(fn *ssa.Function) Value {
	res := fn.Signature.Results()
	switch res.Len() {
	case 0:
		return Value{}
	case 1:
		return zeroValue(res.At(0).Type())
	}
	return zeroValue(res)
}

func (fr *frame) runDefers() {
	for d := fr.defers; d != nil; d = d.tail {
		fr.runDefer(d)
	}
	fr.defers = nil
	if fr.panicking {
		panic(fr.panicVal)
	}
}

func (fr *frame) runDefer(d *deferred) {
	ok := false
	depth := fr.w.callDepth
	defer func() {
		if !ok {
			r := recover()
			gp, isgp := r.(goPanic)
			if !isgp {
				panic(r)
			}
			fr.w.callDepth = depth
			fr.panicking = true
			fr.panicVal = gp
		}
	}()
	fr.w.callValue(fr, d.fn, d.args)
	ok = true
}

func (w *W) runBlocks(fr *frame) {
	for {
		blk := fr.info.blocks[fr.block]
		start := 0
		// phis are a parallel assignment
		if len(blk) > 0 {
			if _, isPhi := blk[0].ins.(*ssa.Phi); isPhi {
				start = w.runPhis(fr, blk)
			}
		}
	instrs:
		for i := start; i < len(blk); i++ {
			ci := &blk[i]
			w.steps++
			if w.steps > w.maxSteps {
				w.noteInconclusive("step budget exceeded")
				w.abort("budget", "step budget %d exceeded in %s", w.maxSteps, fr.info.name)
			}
			c := w.exec(fr, ci)
			if traceFn != "" && strings.Contains(fr.info.name, traceFn) {
				res := ""
				if ci.dst >= 0 {
					res = " => " + describe(fr.regs[ci.dst])
				}
				fmt.Fprintf(os.Stderr, "[trace] %s: %v%s\n", fr.info.name, ci.ins, res)
			}
			switch c {
			case kNext:
			case kJump:
				break instrs
			case kReturn:
				fr.done = true
				return
			}
		}
	}
}

func (w *W) runPhis(fr *frame, blk []cinstr) int {
	preds := fr.fn.Blocks[fr.block].Preds
	pi := -1
	for i, p := range preds {
		if p.Index == fr.prevBlock {
			pi = i
			break
		}
	}
	if pi < 0 {
		panic("phi: no matching predecessor")
	}
	n := 0
	for n < len(blk) {
		if _, ok := blk[n].ins.(*ssa.Phi); !ok {
			break
		}
		n++
	}
	if n == 1 {
		fr.regs[blk[0].dst] = fr.get(&blk[0].ops[pi])
		return 1
	}
	tmp := make([]Value, n)
	for i := 0; i < n; i++ {
		tmp[i] = fr.get(&blk[i].ops[pi])
	}
	for i := 0; i < n; i++ {
		fr.regs[blk[i].dst] = tmp[i]
	}
	w.steps += int64(n)
	return n
}

type cont int

const (
	kNext cont = iota
	kJump
	kReturn
)

func (w *W) site(fr *frame, ins ssa.Instruction) string {
	pos := ins.Pos()
	if !pos.IsValid() {
		// find nearest position in the same block
		return fr.info.name
	}
	p := w.prog.fset.Position(pos)
	return fmt.Sprintf("%s (%s:%d)", fr.info.name, p.Filename, p.Line)
}

func (w *W) rtPanic(fr *frame, ins ssa.Instruction, msg string) {
	site := ""
	if fr != nil {
		site = fr.info.name
		if ins != nil {
			site = w.site(fr, ins)
		}
	}
	if debugPanics {
		fmt.Fprintf(os.Stderr, "[gosym] runtime panic %q at %s stack: %s\n", msg, site, w.stackString())
	}
	panic(goPanic{v: w.runtimeError(msg), site: site})
}

func (w *W) runtimeError(msg string) Value {
	if w.rtErrType == nil {
		rt := w.prog.pkgs["runtime"]
		if rt != nil {
			if m := rt.Members["errorString"]; m != nil {
				w.rtErrType = m.(*ssa.Type).Type()
			}
		}
	}
	if w.rtErrType == nil {
		return mkIface(types.Typ[types.String], mkStr("runtime error: "+msg))
	}
	return mkIface(w.rtErrType, mkStr(msg))
}

func (w *W) exec(fr *frame, ci *cinstr) cont {
	switch ins := ci.ins.(type) {
	case *ssa.UnOp:
		x := fr.get(&ci.ops[0])
		if ins.Op == token.MUL {
			fr.regs[ci.dst] = w.load(fr, ins, x)
		} else {
			fr.regs[ci.dst] = w.unop(fr, ins, x)
		}
	case *ssa.BinOp:
		fr.regs[ci.dst] = w.binop(fr, ins, ins.Op, ins.X.Type(), fr.get(&ci.ops[0]), fr.get(&ci.ops[1]))
	case *ssa.Store:
		w.storeTo(fr, ins, fr.get(&ci.ops[0]), fr.get(&ci.ops[1]))
	case *ssa.If:
		c := fr.get(&ci.ops[0])
		var b bool
		if c.p == nil {
			b = c.c != 0
		} else {
			w.curSite = w.site(fr, ins)
			b = w.decideBool(c.term())
		}
		succs := fr.fn.Blocks[fr.block].Succs
		fr.prevBlock = fr.block
		if b {
			fr.block = succs[0].Index
		} else {
			fr.block = succs[1].Index
		}
		return kJump
	case *ssa.Jump:
		fr.prevBlock = fr.block
		fr.block = fr.fn.Blocks[fr.block].Succs[0].Index
		return kJump
	case *ssa.Phi:
		preds := fr.fn.Blocks[fr.block].Preds
		for i, p := range preds {
			if p.Index == fr.prevBlock {
				fr.regs[ci.dst] = fr.get(&ci.ops[i])
				return kNext
			}
		}
		panic("phi: no matching predecessor")
	case *ssa.Call:
		w.curSite = ""
		fr.regs[ci.dst] = w.doCall(fr, ins, &ins.Call, ci.ops)
	case *ssa.Return:
		switch len(ci.ops) {
		case 0:
		case 1:
			fr.result = fr.get(&ci.ops[0])
		default:
			res := make([]Value, len(ci.ops))
			for i := range ci.ops {
				res[i] = fr.get(&ci.ops[i])
			}
			fr.result = Value{k: KTuple, p: res}
		}
		return kReturn
	case *ssa.Alloc:
		p := new(Value)
		*p = zeroValue(ins.Type().(*types.Pointer).Elem())
		fr.regs[ci.dst] = mkPtr(p)
	case *ssa.FieldAddr:
		x := fr.get(&ci.ops[0])
		p := x.ptr()
		if p == nil {
			if sp, ok := x.p.(*SymPtr); ok {
				// element of an array/slice of structs at a symbolic (in-range) index:
				// complete case split on the index
				w.curSite = w.site(fr, ins)
				i := w.concretize(sp.idx, "index of struct element")
				p = &sp.base[i]
			} else {
				if x.p != nil {
					w.unsupported("FieldAddr through symbolic pointer")
				}
				w.rtPanic(fr, ins, "invalid memory address or nil pointer dereference")
			}
		}
		fr.regs[ci.dst] = mkPtr(&p.p.([]Value)[ins.Field])
	case *ssa.Field:
		x := fr.get(&ci.ops[0])
		fr.regs[ci.dst] = copyVal(x.p.([]Value)[ins.Field])
	case *ssa.IndexAddr:
		fr.regs[ci.dst] = w.indexAddr(fr, ins, fr.get(&ci.ops[0]), fr.get(&ci.ops[1]))
	case *ssa.Index:
		fr.regs[ci.dst] = w.index(fr, ins, fr.get(&ci.ops[0]), fr.get(&ci.ops[1]))
	case *ssa.Extract:
		fr.regs[ci.dst] = fr.get(&ci.ops[0]).p.([]Value)[ins.Index]
	case *ssa.MakeInterface:
		x := fr.get(&ci.ops[0])
		fr.regs[ci.dst] = mkIface(ins.X.Type(), x)
	case *ssa.ChangeInterface:
		fr.regs[ci.dst] = fr.get(&ci.ops[0])
	case *ssa.ChangeType:
		fr.regs[ci.dst] = fr.get(&ci.ops[0])
	case *ssa.Convert:
		fr.regs[ci.dst] = w.convert(fr, ins, ins.X.Type(), ins.Type(), fr.get(&ci.ops[0]))
	case *ssa.MultiConvert:
		fr.regs[ci.dst] = w.convert(fr, ins, ins.X.Type(), ins.Type(), fr.get(&ci.ops[0]))
	case *ssa.TypeAssert:
		fr.regs[ci.dst] = w.typeAssert(fr, ins, fr.get(&ci.ops[0]))
	case *ssa.MakeClosure:
		env := make([]Value, len(ins.Bindings))
		for i := range ins.Bindings {
			env[i] = fr.get(&ci.ops[i+1])
		}
		fr.regs[ci.dst] = Value{k: KFunc, p: &Closure{fn: ins.Fn.(*ssa.Function), env: env}}
	case *ssa.MakeSlice:
		w.curSite = w.site(fr, ins)
		ln := int64(w.concreteInt(fr.get(&ci.ops[0]), "make len"))
		cp := int64(w.concreteInt(fr.get(&ci.ops[1]), "make cap"))
		if ln < 0 || ln > 1<<28 {
			w.rtPanic(fr, ins, "makeslice: len out of range")
		}
		if cp < ln || cp > 1<<28 {
			w.rtPanic(fr, ins, "makeslice: cap out of range")
		}
		el := ins.Type().Underlying().(*types.Slice).Elem()
		arr := zeroValue(types.NewArray(el, cp)).p.([]Value)
		fr.regs[ci.dst] = mkSlice(arr[:ln:cp])
	case *ssa.Slice:
		fr.regs[ci.dst] = w.sliceOp(fr, ins, ci)
	case *ssa.MakeMap:
		fr.regs[ci.dst] = Value{k: KMap, p: newMap()}
	case *ssa.MapUpdate:
		m := fr.get(&ci.ops[0])
		if m.p == nil {
			w.rtPanic(fr, ins, "assignment to entry in nil map")
		}
		w.curSite = w.site(fr, ins)
		w.mapSet(m.p.(*MapObj), fr.get(&ci.ops[1]), copyVal(fr.get(&ci.ops[2])))
	case *ssa.Lookup:
		fr.regs[ci.dst] = w.lookup(fr, ins, fr.get(&ci.ops[0]), fr.get(&ci.ops[1]))
	case *ssa.Range:
		fr.regs[ci.dst] = w.rangeInit(fr, ins, fr.get(&ci.ops[0]))
	case *ssa.Next:
		fr.regs[ci.dst] = w.rangeNext(fr, ins, fr.get(&ci.ops[0]))
	case *ssa.Defer:
		fn, args := w.prepareCall(fr, &ins.Call, ci.ops)
		fr.defers = &deferred{fn: fn, args: args, ins: ins, tail: fr.defers}
	case *ssa.RunDefers:
		fr.runDefers()
	case *ssa.Panic:
		panic(goPanic{v: fr.get(&ci.ops[0]), site: w.site(fr, ins)})
	case *ssa.SliceToArrayPointer:
		x := fr.get(&ci.ops[0])
		n := int(ins.Type().(*types.Pointer).Elem().Underlying().(*types.Array).Len())
		s := x.slice()
		if len(s) < n {
			w.rtPanic(fr, ins, "cannot convert slice to array pointer: length too short")
		}
		if s == nil {
			fr.regs[ci.dst] = Value{k: KPtr}
		} else {
			// arrays are []Value behind a *Value; build an aliasing array value
			p := new(Value)
			*p = Value{k: KArray, p: s[:n:n]}
			fr.regs[ci.dst] = mkPtr(p)
		}
	case *ssa.Go:
		w.unsupported("go statement")
	case *ssa.MakeChan:
		fr.regs[ci.dst] = Value{k: KChan, p: new(int)}
	case *ssa.Send, *ssa.Select:
		w.unsupported("channel operation %T", ins)
	default:
		w.unsupported("instruction %T", ins)
	}
	return kNext
}

// ---- memory ---------------------------------------------------------------

func (w *W) load(fr *frame, ins ssa.Instruction, x Value) Value {
	switch p := x.p.(type) {
	case *Value:
		if w.traced != nil {
			w.traceAccess("R", p)
		}
		return copyVal(*p)
	case *SymPtr:
		return w.symLoad(p)
	case nil:
		w.rtPanic(fr, ins, "invalid memory address or nil pointer dereference")
	}
	panic(fmt.Sprintf("load: bad pointer %T", x.p))
}

func (w *W) storeTo(fr *frame, ins ssa.Instruction, addr, v Value) {
	switch p := addr.p.(type) {
	case *Value:
		if w.traced != nil {
			w.traceAccess("W", p)
		}
		w.assign(p, v)
		if w.traceDeep {
			if name, ok := w.traced[p]; ok {
				w.traceEscape(v, name, 0)
			}
		}
		return
	case *SymPtr:
		w.symStore(p, v)
		return
	case nil:
		w.rtPanic(fr, ins, "invalid memory address or nil pointer dereference")
	}
	panic("storeTo")
}

func (w *W) symLoad(p *SymPtr) Value {
	n := len(p.base)
	if n == 0 {
		panic("symLoad on empty base")
	}
	first := p.base[0]
	switch first.k {
	case KInt:
		acc := w.intTerm(p.base[n-1])
		for i := n - 2; i >= 0; i-- {
			acc = w.ts.Ite(w.ts.Cmp(OEq, p.idx, w.ts.Const(64, uint64(i))), w.intTerm(p.base[i]), acc)
		}
		return mkSymInt(acc)
	case KBool:
		acc := w.boolTerm(p.base[n-1])
		for i := n - 2; i >= 0; i-- {
			acc = w.ts.Ite(w.ts.Cmp(OEq, p.idx, w.ts.Const(64, uint64(i))), w.boolTerm(p.base[i]), acc)
		}
		return mkSymBool(acc)
	}
	// non-scalar element: case split on the index
	i := w.concretize(p.idx, "index of non-scalar element")
	return copyVal(p.base[i])
}

func (w *W) symStore(p *SymPtr, v Value) {
	if len(p.base) > 0 && (p.base[0].k == KInt || p.base[0].k == KBool) {
		for i := range p.base {
			c := w.ts.Cmp(OEq, p.idx, w.ts.Const(64, uint64(i)))
			if p.base[i].k == KInt {
				w.store(&p.base[i], mkSymInt(w.ts.Ite(c, w.intTerm(v), w.intTerm(p.base[i]))))
			} else {
				w.store(&p.base[i], mkSymBool(w.ts.Ite(c, w.boolTerm(v), w.boolTerm(p.base[i]))))
			}
		}
		return
	}
	i := w.concretize(p.idx, "index of non-scalar element (store)")
	w.assign(&p.base[i], v)
}

// boundsCheck forks on 0 <= idx < n for a symbolic index; returns true if in range.
func (w *W) inRange(idx Value, n int) bool {
	if idx.p == nil {
		i := int64(idx.c)
		if idx.w < 64 {
			i = int64(idx.c) // narrower ints are converted by the compiler before indexing
		}
		return i >= 0 && i < int64(n)
	}
	t := idx.term()
	if t.w < 64 {
		t = w.ts.ZExt(t, 64)
	}
	c := w.ts.Cmp(OUlt, t, w.ts.Const(64, uint64(n)))
	return w.decideBool(c)
}

func idx64(w *W, fr *frame, ins ssa.Instruction, idxT types.Type, idx Value) Value {
	// extend index to 64 bits according to its static type
	if idx.w == 64 {
		return idx
	}
	_, signed := intWidth(idxT.Underlying().(*types.Basic))
	if idx.p == nil {
		if signed {
			return mkInt(64, uint64(sext(idx.c, idx.w)))
		}
		return mkInt(64, idx.c)
	}
	if signed {
		return mkSymInt(w.ts.SExt(idx.term(), 64))
	}
	return mkSymInt(w.ts.ZExt(idx.term(), 64))
}

func (w *W) indexAddr(fr *frame, ins *ssa.IndexAddr, x, idx Value) Value {
	var base []Value
	switch x.k {
	case KSlice:
		base = x.slice()
	case KPtr: // *array
		p := x.ptr()
		if p == nil {
			w.rtPanic(fr, ins, "invalid memory address or nil pointer dereference")
		}
		base = p.p.([]Value)
	default:
		panic("indexAddr kind " + kindNames[x.k])
	}
	idx = idx64(w, fr, ins, ins.Index.Type(), idx)
	w.curSite = w.site(fr, ins)
	if !w.inRange(idx, len(base)) {
		w.rtPanic(fr, ins, fmt.Sprintf("index out of range [%s] with length %d", describe(idx), len(base)))
	}
	if idx.p == nil {
		return mkPtr(&base[idx.c])
	}
	if len(base) == 1 {
		return mkPtr(&base[0])
	}
	return Value{k: KPtr, p: &SymPtr{base: base, idx: idx.term()}}
}

func (w *W) index(fr *frame, ins *ssa.Index, x, idx Value) Value {
	idx = idx64(w, fr, ins, ins.Index.Type(), idx)
	w.curSite = w.site(fr, ins)
	switch x.k {
	case KArray:
		base := x.p.([]Value)
		if !w.inRange(idx, len(base)) {
			w.rtPanic(fr, ins, fmt.Sprintf("index out of range [%s] with length %d", describe(idx), len(base)))
		}
		if idx.p == nil {
			return copyVal(base[idx.c])
		}
		return w.symLoad(&SymPtr{base: base, idx: idx.term()})
	case KString:
		return w.strIndex(fr, ins, x, idx)
	}
	panic("index kind " + kindNames[x.k])
}

func (w *W) strIndex(fr *frame, ins ssa.Instruction, x, idx Value) Value {
	n := strLen(x)
	if !w.inRange(idx, n) {
		w.rtPanic(fr, ins, fmt.Sprintf("index out of range [%s] with length %d", describe(idx), n))
	}
	if idx.p == nil {
		return strAt(x, int(idx.c))
	}
	return w.symLoad(&SymPtr{base: strBytes(x), idx: idx.term()})
}

func (w *W) sliceOp(fr *frame, ins *ssa.Slice, ci *cinstr) Value {
	x := fr.get(&ci.ops[0])
	w.curSite = w.site(fr, ins)
	getBound := func(i int, def int) int {
		if ci.ops[i].kind == opNone {
			return def
		}
		v := fr.get(&ci.ops[i])
		var typ types.Type
		switch i {
		case 1:
			typ = ins.Low.Type()
		case 2:
			typ = ins.High.Type()
		case 3:
			typ = ins.Max.Type()
		}
		v = idx64(w, fr, ins, typ, v)
		c := w.concreteInt(v, "slice bound")
		if int64(c) < 0 || int64(c) > 1<<40 {
			return -1
		}
		return int(c)
	}
	switch x.k {
	case KString:
		n := strLen(x)
		lo := getBound(1, 0)
		hi := getBound(2, n)
		if lo < 0 || hi < 0 || hi > n || lo > hi {
			w.rtPanic(fr, ins, fmt.Sprintf("slice bounds out of range [%d:%d] with length %d", lo, hi, n))
		}
		return strSlice(x, lo, hi)
	case KSlice, KPtr:
		var base []Value
		if x.k == KSlice {
			base = x.slice()
		} else {
			p := x.ptr()
			if p == nil {
				w.rtPanic(fr, ins, "invalid memory address or nil pointer dereference")
			}
			base = p.p.([]Value)
		}
		lo := getBound(1, 0)
		hi := getBound(2, len(base))
		mx := getBound(3, cap(base))
		if lo < 0 || hi < 0 || mx < 0 || mx > cap(base) || hi > mx || lo > hi {
			w.rtPanic(fr, ins, fmt.Sprintf("slice bounds out of range [%d:%d:%d] with capacity %d", lo, hi, mx, cap(base)))
		}
		if base == nil {
			return Value{k: KSlice}
		}
		return mkSlice(base[lo:hi:mx])
	}
	panic("slice of " + kindNames[x.k])
}

// ---- calls ----------------------------------------------------------------

func (w *W) prepareCall(fr *frame, cc *ssa.CallCommon, ops []opnd) (Value, []Value) {
	v := fr.get(&ops[0])
	args := make([]Value, 0, len(ops))
	if cc.Method == nil {
		for i := 1; i < len(ops); i++ {
			args = append(args, fr.get(&ops[i]))
		}
		return v, args
	}
	// interface method invocation
	if v.p == nil {
		w.rtPanic(fr, nil, "invalid memory address or nil pointer dereference (method call on nil interface "+cc.Method.Name()+")")
	}
	it := v.iface()
	fn := w.lookupMethod(it.t, cc.Method)
	if fn == nil {
		w.unsupported("method %s not found on %s", cc.Method.Name(), it.t)
	}
	args = append(args, it.v)
	for i := 1; i < len(ops); i++ {
		args = append(args, fr.get(&ops[i]))
	}
	return Value{k: KFunc, p: &Closure{fn: fn}}, args
}

func (w *W) lookupMethod(t types.Type, m *types.Func) *ssa.Function {
	k := methodKey{t, m.Name(), m.Pkg()}
	if f, ok := w.methodCache[k]; ok {
		return f
	}
	f := w.prog.prog.LookupMethod(t, m.Pkg(), m.Name())
	w.methodCache[k] = f
	return f
}

func (w *W) doCall(fr *frame, ins ssa.Instruction, cc *ssa.CallCommon, ops []opnd) Value {
	fn, args := w.prepareCall(fr, cc, ops)
	return w.callValue(fr, fn, args)
}

func (w *W) callValue(fr *frame, fv Value, args []Value) Value {
	c := fv.closure()
	if c == nil {
		w.rtPanic(fr, nil, "invalid memory address or nil pointer dereference (call of nil func)")
	}
	if c.bi != nil {
		return w.builtin(fr, c.bi, args)
	}
	return w.call(fr, c.fn, args, c.env)
}

// ---- type assertions ------------------------------------------------------

func (w *W) implements(t types.Type, it *types.Interface, itT types.Type) bool {
	k := implKey{t, itT}
	if b, ok := w.implCache[k]; ok {
		return b
	}
	b := types.Implements(t, it)
	w.implCache[k] = b
	return b
}

func (w *W) typeAssert(fr *frame, ins *ssa.TypeAssert, x Value) Value {
	it := x.iface()
	ok := false
	var res Value
	at := ins.AssertedType
	if iface, isI := at.Underlying().(*types.Interface); isI {
		if it != nil && w.implements(it.t, iface, at) {
			ok = true
			res = x
		}
	} else {
		if it != nil && types.Identical(it.t, at) {
			ok = true
			res = it.v
		}
	}
	if ins.CommaOk {
		if !ok {
			res = zeroValue(at)
		}
		return Value{k: KTuple, p: []Value{res, mkBool(ok)}}
	}
	if !ok {
		have := "nil"
		if it != nil {
			have = it.t.String()
		}
		w.rtPanic(fr, ins, fmt.Sprintf("interface conversion: interface is %s, not %s", have, at))
	}
	return res
}
