package main

// Persistent SMT solver process (z3 -in / cvc5 --incremental) spoken to over pipes.

import (
	"bufio"
	"fmt"
	"io"
	"os"
	"os/exec"
	"strconv"
	"strings"
	"sync/atomic"
	"time"
)

type Solver struct {
	kind     string // z3 | z3-new | cvc5
	cmd      *exec.Cmd
	in       io.WriteCloser
	lines    chan string
	nTimeout int
	defined  map[int]bool
	nQuery   int
	nSat     int
	nUnsat   int
	nUnk     int
	dur      time.Duration
	log      io.Writer
	timeout  int // ms per query
	dead     bool
	hist     strings.Builder // full script of the current path (only when GOSYM_SLOWQ_DIR is set)
	base     strings.Builder // declarations, definitions and top-level assertions of the current path (cross-check)
	nX       int
}

func NewSolver(kind string, timeoutMs int) (*Solver, error) {
	var cmd *exec.Cmd
	switch kind {
	case "z3":
		cmd = exec.Command("z3", "-in", fmt.Sprintf("-t:%d", timeoutMs))
	case "z3-new":
		cmd = exec.Command("z3-new", "-in", fmt.Sprintf("-t:%d", timeoutMs))
	case "cvc5":
		cmd = exec.Command("cvc5", "--incremental", "--lang=smt2", "--produce-models", fmt.Sprintf("--tlimit-per=%d", timeoutMs))
	default:
		return nil, fmt.Errorf("unknown solver %s", kind)
	}
	in, err := cmd.StdinPipe()
	if err != nil {
		return nil, err
	}
	out, err := cmd.StdoutPipe()
	if err != nil {
		return nil, err
	}
	cmd.Stderr = cmd.Stdout
	if err := cmd.Start(); err != nil {
		return nil, err
	}
	s := &Solver{kind: kind, cmd: cmd, in: in, lines: make(chan string, 256), defined: map[int]bool{}, timeout: timeoutMs}
	go func(rd *bufio.Reader, ch chan string) {
		for {
			line, err := rd.ReadString('\n')
			if line != "" {
				ch <- strings.TrimSpace(line)
			}
			if err != nil {
				close(ch)
				return
			}
		}
	}(bufio.NewReaderSize(out, 1<<16), s.lines)
	s.send("(set-option :produce-models true)\n")
	if kind == "cvc5" {
		s.send("(set-logic QF_BV)\n")
	}
	return s, nil
}

var slowDir = os.Getenv("GOSYM_SLOWQ_DIR")

// xcheckSolver names a second solver ("z3-new" or "cvc5") on which every
// GOSYM_XCHECK_EVERY-th assertion query is re-decided from scratch (one-shot, full
// tactic pipeline); a different verdict makes the run inconclusive.
var xcheckSolver = os.Getenv("GOSYM_XCHECK")
var xcheckEvery = func() int {
	n, _ := strconv.Atoi(os.Getenv("GOSYM_XCHECK_EVERY"))
	if n <= 0 {
		n = 10
	}
	return n
}()
var xcheckSeq int64

// CrossCheck re-decides pc AND extra on the second solver. ok=false: not run / no verdict.
func (s *Solver) CrossCheck(extra *Term) (SatResult, bool) {
	if xcheckSolver == "" || atomic.AddInt64(&xcheckSeq, 1)%int64(xcheckEvery) != 0 {
		return Unknown, false
	}
	var sb strings.Builder
	if xcheckSolver == "cvc5" {
		sb.WriteString("(set-logic QF_BV)\n")
	}
	sb.WriteString(s.base.String())
	if extra != nil {
		defs := map[int]bool{}
		for k, v := range s.defined {
			defs[k] = v
		}
		var d strings.Builder
		r := extra.smtRef(defs, &d)
		sb.WriteString(d.String())
		fmt.Fprintf(&sb, "(assert %s)\n", r)
	}
	sb.WriteString("(check-sat)\n")
	dir := os.Getenv("GOSYM_TMP")
	if dir == "" {
		dir = os.TempDir()
	}
	f, err := os.CreateTemp(dir, "xcheck-*.smt2")
	if err != nil {
		return Unknown, false
	}
	defer os.Remove(f.Name())
	f.WriteString(sb.String())
	f.Close()
	var cmd *exec.Cmd
	switch xcheckSolver {
	case "cvc5":
		cmd = exec.Command("cvc5", "--lang=smt2", "--tlimit=60000", f.Name())
	default:
		cmd = exec.Command(xcheckSolver, "-T:60", f.Name())
	}
	out, _ := cmd.CombinedOutput()
	txt := strings.TrimSpace(string(out))
	s.nX++
	switch {
	case strings.HasPrefix(txt, "unsat"):
		return Unsat, true
	case strings.HasPrefix(txt, "sat"):
		return Sat, true
	}
	return Unknown, false
}

var slowSeq int64

func (s *Solver) dumpSlow(d time.Duration, res string) {
	n := atomic.AddInt64(&slowSeq, 1)
	if n > 40 {
		return
	}
	os.WriteFile(fmt.Sprintf("%s/slow_%03d_%s_%dms.smt2", slowDir, n, res, d.Milliseconds()), []byte(s.hist.String()), 0o644)
}

func (s *Solver) send(txt string) {
	if s.log != nil {
		io.WriteString(s.log, txt)
	}
	if _, err := io.WriteString(s.in, txt); err != nil {
		s.dead = true
	}
}

func (s *Solver) Close() {
	if s.cmd != nil {
		s.in.Close()
		s.cmd.Process.Kill()
		s.cmd.Wait()
		s.cmd = nil
	}
}

// Reset clears all assertions and definitions (start of a path).
func (s *Solver) Reset() {
	s.send("(reset)\n(set-option :produce-models true)\n")
	if s.kind == "cvc5" {
		s.send("(set-logic QF_BV)\n")
	}
	s.defined = map[int]bool{}
	s.hist.Reset()
	s.base.Reset()
}

func (s *Solver) Assert(t *Term) {
	var sb strings.Builder
	r := t.smtRef(s.defined, &sb)
	fmt.Fprintf(&sb, "(assert %s)\n", r)
	if slowDir != "" {
		s.hist.WriteString(sb.String())
	}
	if xcheckSolver != "" {
		s.base.WriteString(sb.String())
	}
	s.send(sb.String())
}

type SatResult int

const (
	Unsat SatResult = iota
	Sat
	Unknown
)

func (r SatResult) String() string { return [...]string{"unsat", "sat", "unknown"}[r] }

var errSolverTimeout = fmt.Errorf("solver timeout (process killed)")

// readLine waits for the next output line; the solver's own soft timeout (-t) is
// not always honoured (preprocessing / bit-blasting), so a hard limit of twice the
// per-query budget kills the process.
func (s *Solver) readLine() (string, error) {
	tm := time.NewTimer(time.Duration(2*s.timeout+2000) * time.Millisecond)
	defer tm.Stop()
	select {
	case line, ok := <-s.lines:
		if !ok {
			return "", io.EOF
		}
		return line, nil
	case <-tm.C:
		s.nTimeout++
		s.dead = true
		if s.cmd != nil && s.cmd.Process != nil {
			s.cmd.Process.Kill()
		}
		return "", errSolverTimeout
	}
}

// CheckWith checks satisfiability of the current assertions plus extra (may be nil).
// If the result is Sat and wantVars != nil, the values of those vars are returned.
func (s *Solver) CheckWith(extra *Term, wantVars []*Term) (SatResult, []uint64, error) {
	t0 := time.Now()
	defer func() {
		d := time.Since(t0)
		s.dur += d
		if slowDir != "" && d > 1500*time.Millisecond {
			s.dumpSlow(d, "q")
		}
	}()
	s.nQuery++
	var sb strings.Builder
	// definitions must be emitted outside the push so that they survive the pop
	var r string
	if extra != nil {
		r = extra.smtRef(s.defined, &sb)
	}
	for _, v := range wantVars {
		v.smtRef(s.defined, &sb)
	}
	if xcheckSolver != "" {
		s.base.WriteString(sb.String()) // definitions emitted outside the push
	}
	sb.WriteString("(push 1)\n")
	if extra != nil {
		fmt.Fprintf(&sb, "(assert %s)\n", r)
	}
	sb.WriteString("(check-sat)\n")
	if slowDir != "" {
		s.hist.WriteString(sb.String())
	}
	s.send(sb.String())
	var res SatResult
	for {
		line, err := s.readLine()
		if err != nil {
			s.dead = true
			return Unknown, nil, fmt.Errorf("solver died: %v", err)
		}
		if line == "" {
			continue
		}
		if strings.HasPrefix(line, "(error") {
			s.nUnk++
			s.send("(pop 1)\n")
			return Unknown, nil, fmt.Errorf("solver error: %s", line)
		}
		switch line {
		case "sat":
			res = Sat
		case "unsat":
			res = Unsat
		case "unknown", "timeout":
			res = Unknown
		default:
			continue // ignore noise such as "unsupported"
		}
		break
	}
	var vals []uint64
	var verr error
	if res == Sat && len(wantVars) > 0 {
		vals, verr = s.getValues(wantVars)
	}
	s.send("(pop 1)\n")
	switch res {
	case Sat:
		s.nSat++
	case Unsat:
		s.nUnsat++
	default:
		s.nUnk++
	}
	return res, vals, verr
}

func (s *Solver) getValues(vars []*Term) ([]uint64, error) {
	vals := make([]uint64, len(vars))
	const chunk = 200
	for off := 0; off < len(vars); off += chunk {
		end := off + chunk
		if end > len(vars) {
			end = len(vars)
		}
		var sb strings.Builder
		sb.WriteString("(get-value (")
		for _, v := range vars[off:end] {
			sb.WriteString(v.name)
			sb.WriteString(" ")
		}
		sb.WriteString("))\n(echo \"<<end>>\")\n")
		s.send(sb.String())
		var all strings.Builder
		for {
			line, err := s.readLine()
			if err != nil {
				s.dead = true
				return nil, err
			}
			if strings.Contains(line, "<<end>>") {
				break
			}
			all.WriteString(line)
			all.WriteString(" ")
		}
		txt := all.String()
		if strings.Contains(txt, "(error") {
			return nil, fmt.Errorf("get-value: %s", txt)
		}
		// parse pairs (name value)
		toks := tokenize(txt)
		i := 0
		idx := off
		for i < len(toks) && idx < end {
			if toks[i] == "(" && i+1 < len(toks) && toks[i+1] == vars[idx].name {
				// value token(s)
				j := i + 2
				var v uint64
				var err error
				if toks[j] == "(" { // (_ bvN w)
					// ( _ bv123 8 )
					if j+2 < len(toks) && toks[j+1] == "_" && strings.HasPrefix(toks[j+2], "bv") {
						v, err = strconv.ParseUint(toks[j+2][2:], 10, 64)
					} else {
						err = fmt.Errorf("unparsable value near %v", toks[j:min(j+5, len(toks))])
					}
				} else {
					v, err = parseLit(toks[j])
				}
				if err != nil {
					return nil, err
				}
				vals[idx] = v
				idx++
				i = j + 1
				continue
			}
			i++
		}
		if idx != end {
			return nil, fmt.Errorf("get-value: parsed %d of %d values: %s", idx-off, end-off, txt)
		}
	}
	return vals, nil
}

func parseLit(tok string) (uint64, error) {
	switch {
	case tok == "true":
		return 1, nil
	case tok == "false":
		return 0, nil
	case strings.HasPrefix(tok, "#x"):
		return strconv.ParseUint(tok[2:], 16, 64)
	case strings.HasPrefix(tok, "#b"):
		return strconv.ParseUint(tok[2:], 2, 64)
	}
	return 0, fmt.Errorf("bad literal %q", tok)
}

func tokenize(s string) []string {
	var toks []string
	cur := strings.Builder{}
	flush := func() {
		if cur.Len() > 0 {
			toks = append(toks, cur.String())
			cur.Reset()
		}
	}
	for _, r := range s {
		switch r {
		case '(', ')':
			flush()
			toks = append(toks, string(r))
		case ' ', '\t', '\n', '\r':
			flush()
		default:
			cur.WriteRune(r)
		}
	}
	flush()
	return toks
}
